#!/bin/sh
# Builds everything the quick checks need, offline, from files on disk only.
set -e
cd "$(dirname "$0")"
export CARGO_NET_OFFLINE=true
python3 -m vlib.build rel chk harness harness-chk tsan
# warm up the Miri build of the harness (first use compiles the dependency graph for Miri)
python3 - <<'PY'
import subprocess, sys
sys.path.insert(0, '.')
from vlib import build
cmd, env, cwd = build.miri_cmd(['tables'])
p = subprocess.run(cmd, cwd=cwd, env=env, stdout=subprocess.DEVNULL, stderr=subprocess.PIPE, text=True)
if p.returncode != 0:
    sys.stderr.write(p.stderr[-2000:])
    sys.exit('miri warm-up failed')
print('miri ready')
PY
