#!/usr/bin/env python3
"""Writes /verif/MANIFEST.json from the property modules (so that rule texts and levels stay in one place)."""
import importlib
import json
import os
import subprocess
import sys

ROOT = os.path.dirname(os.path.dirname(os.path.abspath(__file__)))
sys.path.insert(0, ROOT)

TECH = {
    'C01': 'runtime monitor at the CLI boundary: build + nk read-out judged by an independent set-based reference model; overflow-checked build slice; forced corner cases for all 30 k',
    'C02': 'metamorphic runtime monitor: two executions of the real build on transformed inputs, tables compared (model-free)',
    'C03': 'runtime monitor with planted-truth oracle over generated sample sets (both input routes)',
    'C04': 'runtime monitor: position-wise reference model evaluated on the table read back from the real .skf; overflow-checked slice',
    'C05': 'runtime monitor: relation between two outputs of the same run (VCF vs alignment) plus model cross-check',
    'C06': 'runtime monitor: exact-rational row predicate over arbitrary tables constructed through ska build; sub-multiset relations between runs',
    'C07': 'differential runtime monitor (merge vs joint build) plus reference model; generic decode of the stored object (harness); refusal monitor; resource-limit slice (open files)',
    'C08': 'differential runtime monitor (delete vs build of the rest) plus reference model; generic decode of the stored object (harness); refusal/byte-identity and unwritable-output monitors',
    'C09': 'differential runtime monitor: in-memory vs saved+reloaded results through a library harness, CLI route comparison, narrow-file scenarios against the model; overflow-checked slice',
    'C10': 'history monitor: model table checked after every step of generated operation histories, final differential against a content-only fresh file',
    'C11': 'schedule-perturbation runtime monitor: repeated runs under thread counts, seeded jitter at hook points, CPU pinning; event log of (site,item,thread); ThreadSanitizer build (a slice in quick, every command in thorough)',
    'C12': 'runtime monitor with two oracles (plus input fault injection, in-process multi-build through the harness, a multi-million k-mer gzip input, and in the thorough tier a deep sample holding more than 2^23 k-mers at one count at the same time): exact counting model of the output, and an offline checker over the hooked event log of the real counting filter (call sequence, Bloom no-false-negative, exactly-at-threshold accept)',
    'C13': 'runtime monitor: reference model plus model-free partition and idempotence relations',
    'C14': 'runtime monitor: exact-rational distance model over constructed tables; permutation, thread-count and file-history invariance; library second-call differential through the harness',
    'C15': 'complete enumeration of the lookup tables and classifiers dumped from the real code (native and under Miri) against set algebra; use-site monitors through build, map, align, weed and distance',
    'C16': 'complete enumeration (k<=9 quick, k<=11 thorough) plus structured/random k-mers through a harness against a string-level reference; rolling-vs-scratch differential; Miri and overflow-checked slices; command-line use sites (build --min-count auto vs cov, map first windows)',
    'C17': 'runtime monitor with planted-truth oracle and a well-formedness predicate; thread counts and seeded jitter',
    'C18': 'runtime monitor: substring tests of every indel record against the generated sample sequences; location/carrier matching; recall as a population statistic',
    'C19': 'fault enumeration: every truncation and every single-bit flip of valid files through the CLI and the library load (sharded, address-space limited); subcommand sampling; strace kill/ENOSPC injection at every write of in-place rewrites; valgrind memcheck on the command line; AddressSanitizer harness (thorough)',
    'C20': 'runtime monitor: exact multiplicity model, independent mixture/cutoff implementation evaluated at the fitted parameters read through hook accessors, numerical-gradient identity of the hooked likelihood',
}
REF = {pid: 'DESIGN.md section 6, %s' % pid for pid in TECH}


def main():
    props = [json.loads(l) for l in open(os.path.join(ROOT, 'properties.jsonl'))]
    hooks = subprocess.run(['git', '-C', '/repo', 'log', '--format=%h %s', '--reverse'], capture_output=True, text=True).stdout.split('\n')
    hook_commits = [l.split()[0] for l in hooks if 'verif-hooks' in l]
    checks = []
    na = []
    for p in props:
        pid = p['id']
        try:
            mod = importlib.import_module('vlib.props.' + pid.lower())
        except ImportError:
            na.append({'property_id': pid, 'reason': 'check not built'})
            continue
        level = mod.LEVEL
        text = {
            'exploration': 'Held on the executions reported in the evidence file: generated and forced cases run through the real code and '
                           'judged by an oracle. This is sampling of an unbounded input space (complete only where the evidence says exhaustive), '
                           'which is what runtime monitoring can give for a for-all-inputs property.',
            'fault_enumeration': 'Every single truncation and every single-bit flip of each listed file is enumerated and judged; other '
                                 'parts (subcommand sample, crash points) are as counted in the evidence. The set of files is a sample.',
        }[level]
        checks.append({
            'property_id': pid,
            'quick_cmd': './check %s --tier quick' % pid,
            'thorough_cmd': './check %s --tier thorough' % pid,
            'evidence_file': '/verif/evidence/%s.json' % pid,
            'replay_cmd_template': './check %s --replay {path}' % pid,
            'engine': 'skaverif',
            'level_claimed': {'category': level, 'text': text + ' ' + mod.RULE, 'design_ref': REF[pid]},
            'level_note': '; '.join(mod.ASSUMPTIONS) + '; the ska binary and harness are rebuilt from /repo\'s working tree with --features verif-hooks',
            'technique': TECH[pid],
        })
    manifest = {
        'version': 1,
        'setup_cmd': './setup.sh',
        'hooks': {
            'guard': 'cargo feature verif-hooks (off by default)',
            'enable': 'cargo build --release --features verif-hooks (done by vlib/build.py into /verif/.build); hooks stay inert unless SKA_VERIF_LOG / SKA_VERIF_JITTER are set',
            'baseline_off_cmd': 'cd /repo && cargo test --workspace --no-fail-fast --offline',
            'source_commits': hook_commits,
            'add_only': True,
        },
        'engines': [{'name': 'skaverif', 'path': '/verif/check', 'serves_properties': [c['property_id'] for c in checks],
                     'kind_free_text': 'Python runner (vlib/run.py) driving the real ska binary and a Rust harness crate linked against /repo; '
                                       'independent reference model in vlib/model.py; sanitizer builds (overflow-checked, Miri, TSan, ASan) via vlib/build.py'}],
        'checks': checks,
        'notes': 'Exit codes: 0 held on everything explored, 1 violation (VIOLATION line with replay path), 2 inconclusive (never a VIOLATION line). '
                 'Genuine defects found and repaired are listed in known_findings.json (status fixed). VERIF_SEED selects the random stream; '
                 'VERIF_REPO selects another tree (self-tests on scratch copies).',
        'not_applicable': na,
    }
    with open(os.path.join(ROOT, 'MANIFEST.json'), 'w') as f:
        json.dump(manifest, f, indent=1)
    print('wrote MANIFEST.json with %d checks' % len(checks))


if __name__ == '__main__':
    main()
