#!/usr/bin/env python3
"""Run checks against a mutated copy of the repository.

usage: selftest/mutant.py [--tests] [--tier quick] [--keep] <patch.diff | --revert COMMIT> <C01> [C02 ...]

Creates a scratch git worktree of /repo (HEAD) under /tmp, applies the patch (or reverts a commit), seeds the build
directories from /repo's own (so only the ska crate recompiles), runs the named checks with VERIF_REPO pointing at the
worktree, prints one line per check (DETECTED / silent / inconclusive) and removes the worktree and its build output.
Nothing is written to /repo, and evidence files are not touched (vlib/run.py only writes them for /repo).
"""
import hashlib
import os
import shutil
import subprocess
import sys
import time

ROOT = os.path.dirname(os.path.dirname(os.path.abspath(__file__)))


def main():
    args = sys.argv[1:]
    tests = '--tests' in args
    keep = '--keep' in args
    tier = 'quick'
    if '--tier' in args:
        tier = args[args.index('--tier') + 1]
        del args[args.index('--tier'):args.index('--tier') + 2]
    demo = None
    if '--demo' in args:
        demo = os.path.abspath(args[args.index('--demo') + 1])
        del args[args.index('--demo'):args.index('--demo') + 2]
    args = [a for a in args if a not in ('--tests', '--keep')]
    revert = None
    if args[0] == '--revert':
        revert = args[1]
        args = args[2:]
        tag = 'revert-' + revert
    else:
        patch = os.path.abspath(args[0])
        args = args[1:]
        pd = os.path.dirname(patch)
        tag = '%s-%s' % (os.path.basename(os.path.dirname(pd)), os.path.basename(pd)) if pd else os.path.basename(patch)
    ids = args
    wt = '/tmp/skamut-%s-%d' % (tag.replace('/', '_'), os.getpid())
    subprocess.run(['git', '-C', '/repo', 'worktree', 'add', '-q', '--detach', wt, 'HEAD'], check=True)
    key = hashlib.sha1(os.path.realpath(wt).encode()).hexdigest()[:10]
    bdir = os.path.join(ROOT, '.build', key)
    rc = 0
    cleanup = []
    try:
        if revert:
            p = subprocess.run(['git', '-C', wt, 'revert', '--no-commit', revert], capture_output=True, text=True)
        else:
            p = subprocess.run(['git', '-C', wt, 'apply', patch], capture_output=True, text=True)
        if p.returncode != 0:
            print('PATCH-FAILED %s: %s' % (tag, p.stderr.strip()[-300:]))
            return 3
        shutil.copy('/repo/Cargo.lock', os.path.join(wt, 'Cargo.lock'))
        # seed build directories from /repo's
        src = os.path.join(ROOT, '.build', hashlib.sha1(b'/repo').hexdigest()[:10])
        os.makedirs(bdir, exist_ok=True)
        for v in ('rel', 'chk', 'harness-rel', 'harness-chk'):
            if os.path.isdir(os.path.join(src, v)) and not os.path.exists(os.path.join(bdir, v)):
                subprocess.run(['cp', '-r', '--reflink=auto', os.path.join(src, v), os.path.join(bdir, v)], check=True)
        env = dict(os.environ, VERIF_REPO=wt, CARGO_NET_OFFLINE='true')
        if (tests or demo) and os.path.isdir('/repo/target') and not os.path.exists(os.path.join(wt, 'target')):
            subprocess.run(['cp', '-r', '--reflink=auto', '/repo/target', os.path.join(wt, 'target')], check=True)
        if tests:
            t0 = time.time()
            p = subprocess.run(['cargo', 'test', '--workspace', '--no-fail-fast', '--offline'], cwd=wt, env=env, capture_output=True, text=True)
            failed = [l for l in p.stdout.split('\n') if l.startswith('test ') and 'FAILED' in l]
            print('TESTS %s: exit=%d failed=%d (%.0fs) %s' % (tag, p.returncode, len(failed), time.time() - t0, failed[:3]))
        if demo:
            # the demonstration must fail on the mutated build and pass on the unmodified one
            subprocess.run(['cargo', 'build', '--release', '--offline'], cwd=wt, env=env, capture_output=True, text=True)
            mut_bin = os.path.join(wt, 'target', 'release', 'ska')
            ok_bin = os.path.join(src, 'rel', 'release', 'ska')
            res = []
            for b in (mut_bin, ok_bin):
                e2 = dict(env, SKA=b)
                e2.pop('VERIF_REPO', None)
                q = subprocess.run(['bash', demo, b], cwd=wt, env=e2, capture_output=True, text=True)
                res.append(q.returncode)
            if res[0] == res[1]:
                # some demonstrations take the path of a worktree (using <worktree>/target/release/ska) instead of a binary
                res = []
                clean = '/tmp/skaclean-%d' % os.getpid()
                subprocess.run(['git', '-C', '/repo', 'worktree', 'add', '-q', '--detach', clean, 'HEAD'], check=True)
                shutil.copy('/repo/Cargo.lock', os.path.join(clean, 'Cargo.lock'))
                subprocess.run(['cp', '-r', '--reflink=auto', '/repo/target', os.path.join(clean, 'target')], check=True)
                subprocess.run(['cargo', 'build', '--release', '--offline'], cwd=clean, env=env, capture_output=True, text=True)
                cleanup.append(clean)
                for root in (wt, clean):
                    e2 = dict(env, SKA=os.path.join(root, 'target', 'release', 'ska'))
                    e2.pop('VERIF_REPO', None)
                    q = subprocess.run(['bash', demo, root], cwd=root, env=e2, capture_output=True, text=True)
                    res.append(q.returncode)
            print('DEMO %s: mutated exit=%d unmodified exit=%d -> %s' % (tag, res[0], res[1], 'confirmed' if res[0] != 0 and res[1] == 0 else 'NOT CONFIRMED'))
        for pid in ids:
            t0 = time.time()
            p = subprocess.run([os.path.join(ROOT, 'check'), pid, '--tier', tier], env=env, capture_output=True, text=True)
            viol = [l for l in p.stdout.split('\n') if l.startswith('  violation:')]
            sigs = [l for l in p.stdout.split('\n') if 'distinct signature' in l]
            status = {0: 'silent', 1: 'DETECTED', 2: 'inconclusive'}.get(p.returncode, 'exit %d' % p.returncode)
            print('%s %s %s (%.0fs) %s' % (tag, pid, status, time.time() - t0, (viol[0][:260] if viol else '')))
            if sigs:
                print('   ' + sigs[0].strip()[:300])
            if p.returncode == 2:
                print('   ' + ' | '.join(l for l in p.stdout.split('\n') if 'INCONCLUSIVE' in l or 'inconclusive case' in l)[:400])
            if p.returncode not in (0, 1, 2):
                print(p.stdout[-500:], p.stderr[-500:])
    finally:
        for c in cleanup:
            subprocess.run(['git', '-C', '/repo', 'worktree', 'remove', '--force', c])
        if not keep:
            subprocess.run(['git', '-C', '/repo', 'worktree', 'remove', '--force', wt])
            shutil.rmtree(bdir, ignore_errors=True)
            shutil.rmtree(os.path.join(ROOT, 'replays'), ignore_errors=True) if False else None
    return rc


if __name__ == '__main__':
    sys.exit(main())
