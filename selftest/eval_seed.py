#!/usr/bin/env python3
"""Confirm a seeded change delivered by a sub-agent and run checks against it.

usage: selftest/eval_seed.py <Cxx> <A|B|...> <check ids...>
reads  /tmp/seed_out/<Cxx>/<variant>/{patch.diff,demo.sh,notes.md}
writes /verif/seeded/<Cxx>-<variant>/{patch.diff,demo.sh,notes.md,meta.json}  (only when the change is confirmed:
       applies, compiles, the unedited test suite passes, the demonstration fails with it and passes without it)
"""
import json
import os
import re
import shutil
import subprocess
import sys

ROOT = os.path.dirname(os.path.dirname(os.path.abspath(__file__)))


def main():
    prop, var = sys.argv[1], sys.argv[2]
    checks = sys.argv[3:]
    base = os.environ.get('SEED_SRC', '/tmp/seed_out')
    suffix = os.environ.get('SEED_SUFFIX', '')
    src = '%s/%s/%s' % (base, prop, var)
    demo = os.path.join(src, 'demo.sh')
    cmd = [sys.executable, os.path.join(ROOT, 'selftest', 'mutant.py'), '--tests']
    if os.path.exists(demo):
        cmd += ['--demo', demo]
    cmd += [os.path.join(src, 'patch.diff')] + checks
    p = subprocess.run(cmd, capture_output=True, text=True)
    out = p.stdout + p.stderr
    open(os.path.join(src, 'result.txt'), 'w').write(out)
    tests_ok = bool(re.search(r'TESTS \S+: exit=0 failed=0', out))
    demo_ok = 'confirmed' in out and 'NOT CONFIRMED' not in out
    results = {}
    for c in checks:
        m = re.search(r'^\S+ %s (DETECTED|silent|inconclusive|exit \d+) \((\d+)s\)(.*)$' % c, out, re.M)
        if m:
            results[c] = {'verdict': m.group(1), 'seconds': int(m.group(2)), 'first_violation': m.group(3).strip()[:300]}
    print('%s-%s%s tests_ok=%s demo_ok=%s %s' % (prop, var, suffix, tests_ok, demo_ok, {c: r['verdict'] for c, r in results.items()}))
    if 'PATCH-FAILED' in out:
        print('  patch does not apply')
        return 1
    if tests_ok and demo_ok:
        dst = os.path.join(ROOT, 'seeded', '%s-%s%s' % (prop, var, suffix))
        os.makedirs(dst, exist_ok=True)
        for f in ('patch.diff', 'demo.sh', 'notes.md'):
            if os.path.exists(os.path.join(src, f)):
                shutil.copy(os.path.join(src, f), os.path.join(dst, f))
        for f in os.listdir(src):
            if f.startswith('demo') and f not in ('demo.sh',):
                shutil.copy(os.path.join(src, f), os.path.join(dst, f))
        notes = open(os.path.join(src, 'notes.md')).read() if os.path.exists(os.path.join(src, 'notes.md')) else ''
        head = subprocess.run(['git', '-C', '/repo', 'rev-parse', '--short', 'HEAD'], capture_output=True, text=True).stdout.strip()
        meta = {
            'breaks_property': prop,
            'variant': var,
            'origin': 'independent sub-agent given only the property record and a scratch worktree',
            'needs_to_manifest': notes[:1500],
            'confirmed': {'applies_to_repo_head': head, 'unedited_test_suite_passes_with_change': tests_ok,
                          'demonstration_fails_with_change_and_passes_without': demo_ok,
                          'how': 'selftest/mutant.py --tests --demo demo.sh patch.diff ' + ' '.join(checks) + ' (scratch git worktree under /tmp, removed afterwards)'},
            'checks_run_quick_tier': results,
        }
        json.dump(meta, open(os.path.join(dst, 'meta.json'), 'w'), indent=1)
    return 0


if __name__ == '__main__':
    sys.exit(main())
