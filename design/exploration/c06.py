from model import *
import shutil, math
SKA=os.environ.get('SKA','/tmp/ska_scratch/target/release/ska')
CODES={v:set(k) for k,v in IUPAC.items()}
def rseq(rng,n): return ''.join(rng.choice('ACGT') for _ in range(n))
def sh(*a): return subprocess.run(list(a),capture_output=True,text=True)
def make_table(rng,k,ns,nrows):
    h=(k-1)//2; rows={}
    while len(rows)<nrows:
        arms=rseq(rng,k-1)
        ra=rc(arms)
        if key(arms)>=key(ra): continue   # keep canonical fwd, non-palindromic
        if arms in rows: continue
        style=rng.randrange(5)
        bases=[]
        for s in range(ns):
            r=rng.random()
            if style==0: b=rng.choice('ACGT')
            elif style==1: b='A' if r<0.8 else '-'
            elif style==2: b=rng.choice(list(CODES)+['-','-'])
            elif style==3: b=rng.choice(['A','R','-'])
            else: b=rng.choice('AC-') 
            bases.append(b)
        if all(b=='-' for b in bases): continue
        rows[arms]=bases
    return rows
def write_samples(d,rows,k,ns):
    h=(k-1)//2; fns=[]
    for s in range(ns):
        fn=f'{d}/s{s}.fa'; fns.append(fn)
        with open(fn,'w') as f:
            n=0
            for arms,bases in rows.items():
                b=bases[s]
                if b=='-': continue
                for m in sorted(CODES[b]):
                    f.write(f'>r{n}\n{arms[:h]}{m}{arms[h:]}N\n'); n+=1
            if n==0: return None
    return fns
def amb(b): return b not in 'ACGTU-'
def expected_cols(rows,ns,filt,minfreq,fam,mask,nogap):
    thr=max(1,math.ceil(minfreq*ns - 1e-12))
    cols=[]
    for arms,bases in rows.items():
        cnt=sum(1 for b in bases if b!='-' and (not fam or not amb(b)))
        if cnt<thr: continue
        if filt=='no-filter': keep=True
        elif filt=='no-const': keep=len(set(b for b in bases if not(nogap and b=='-')))>1
        elif filt=='no-ambig': keep=not any(amb(b) for b in bases)
        else: keep=len(set(b for b in bases if (b in 'ACGT') or (b=='-' and not nogap)))>1
        if keep: cols.append(''.join('N' if (mask and amb(b)) else b for b in bases))
    return sorted(cols)
def run(seed,n):
    rng=random.Random(seed); bad=0
    d=f'/tmp/exp/p/f{seed}'; shutil.rmtree(d,ignore_errors=True); os.makedirs(d)
    for it in range(n):
        k=rng.choice([5,7,9,15,31,33,63]); ns=rng.randint(1,12)
        rows=make_table(rng,k,ns,rng.randint(1,40))
        fns=write_samples(d,rows,k,ns)
        if not fns: continue
        p=sh(SKA,'build','-k',str(k),'-o',d+'/t',*fns); assert p.returncode==0,p.stderr[-300:]
        q=sh(SKA,'nk','--full-info',d+'/t.skf'); hdr,T=parse_nk(q.stdout,k)
        if T!=rows: bad+=1; print('TABLE BUILD MISMATCH',k,ns); continue
        for rep in range(6):
            filt=rng.choice(['no-filter','no-const','no-ambig','no-ambig-or-const'])
            j=rng.randint(0,ns); mf=rng.choice([0.0,1.0,j/ns if ns else 0, 0.9, 0.5])
            fam=rng.random()<0.5; mask=rng.random()<0.5; nogap=rng.random()<0.5
            mfs=repr(mf)
            a=sh(SKA,'align',d+'/t.skf','--filter',filt,'--min-freq',mfs,*(['--filter-ambig-as-missing'] if fam else []),*(['--ambig-mask'] if mask else []),*(['--no-gap-only-sites'] if nogap else []))
            if a.returncode!=0: bad+=1; print('ALIGN FAIL',a.stderr[-200:]); continue
            names=[];seqs=[]
            for l in a.stdout.split('\n'):
                if l.startswith('>'): names.append(l[1:]); seqs.append('')
                elif l: seqs[-1]+=l
            got=sorted(''.join(s[i] for s in seqs) for i in range(len(seqs[0]))) if seqs and seqs[0] else []
            exp=expected_cols(rows,ns,filt,float(mfs),fam,mask,nogap)
            if got!=exp or names!=[f's{i}' for i in range(ns)] or len(set(map(len,seqs)))>1:
                bad+=1; print('MISMATCH',k,ns,filt,mfs,fam,mask,nogap,'got',len(got),'exp',len(exp), [c for c in exp if c not in got][:3],[c for c in got if c not in exp][:3])
    print('seed',seed,'n',n,'bad',bad)
if __name__=="__main__": run(int(sys.argv[1]),int(sys.argv[2]))
