from model import *
SKA=os.environ.get('SKA','/tmp/ska_scratch/target/release/ska')
def rseq(rng,n): return ''.join(rng.choice('ACGT') for _ in range(n))
def unique_km1(seq,k):
    seen=set()
    for i in range(len(seq)-(k-1)+1):
        w=seq[i:i+k-1]; r=rc(w)
        if w in seen or r in seen: return False
        if w==r: return False
        seen.add(w)
    return True
def gen(rng,k,nsnp,ns):
    while True:
        L=4*k+ (nsnp-1)*(2*k+rng.randint(0,k)) + rng.randint(0,3*k)
        anc=rseq(rng,L)
        if unique_km1(anc,k): break
    # sites at least 2k apart, >=2k from ends
    sites=[]; p=2*k+rng.randint(0,k//2)
    for _ in range(nsnp):
        if p>=L-2*k: break
        sites.append(p); p+=2*k+rng.randint(0,k)
    samples=[list(anc) for _ in range(ns)]
    truth={}
    for s in sites:
        alts=[b for b in 'ACGT' if b!=anc[s]]
        nall=rng.choice([2,2,2,3])
        alleles=[anc[s]]+rng.sample(alts,nall-1)
        while True:
            assign=[rng.choice(alleles) for _ in range(ns)]
            if len(set(assign))>=2: break
        for i in range(ns): samples[i][s]=assign[i]
        truth[s]=''.join(assign)
    ss=[''.join(x) for x in samples]
    # strict: every (k-1)-mer over the union of samples occurs at one locus only (both strands)
    loc={}
    for t in ss:
        for i in range(len(t)-(k-1)+1):
            w=t[i:i+k-1]; r=rc(w)
            if w==r: return gen(rng,k,nsnp,ns)
            for x,pos in ((w,i),(r,-i-1)):
                if loc.setdefault(x,pos)!=pos: return gen(rng,k,nsnp,ns)
    if not truth: return gen(rng,k,nsnp,ns)
    return anc,ss,truth
def cols(seqs):
    return sorted(''.join(s[i] for s in seqs) for i in range(len(seqs[0]))) if seqs and seqs[0] else []
def comp(c): return ''.join({'A':'T','C':'G','G':'C','T':'A','-':'-','N':'N'}[x] for x in c)
def canon(c): return min(c,comp(c))
def run(seed,n):
    rng=random.Random(seed); bad=0
    d=f'/tmp/exp/p/l{seed}'; os.makedirs(d,exist_ok=True)
    for it in range(n):
        k=rng.choice([7,9,11,15,21,31,33])
        ns=rng.randint(3,10)
        anc,samples,truth=gen(rng,k,rng.randint(1,6),ns)
        fns=[]
        for i,s in enumerate(samples):
            fn=f'{d}/s{i}.fa'; fns.append(fn)
            s2=s if rng.random()<0.5 else rc(s)
            open(fn,'w').write(f'>x\n{s2}\n')
        subprocess.run([SKA,'build','-k',str(k),'-o',d+'/o']+fns,capture_output=True,text=True,check=True)
        for f in os.listdir(d):
            if f.startswith('out_'): os.remove(d+'/'+f)
        thr=rng.choice([1,1,2,4])
        p=subprocess.run([SKA,'lo',d+'/o.skf',d+'/out','--threads',str(thr)],capture_output=True,text=True)
        if p.returncode!=0:
            bad+=1; print('LO FAILED',k,ns,truth,p.stderr[-300:]); continue
        names,seqs=[],[]
        for l in open(d+'/out_snps.fas'):
            l=l.rstrip('\n')
            if l.startswith('>'): names.append(l[1:]); seqs.append('')
            else: seqs[-1]+=l
        got=sorted(canon(c) for c in cols(seqs))
        exp=sorted(canon(c) for c in truth.values())
        if got!=exp or names!=[f's{i}' for i in range(ns)]:
            bad+=1; print('MISMATCH k',k,'ns',ns,'thr',thr,'exp',exp,'got',got,'sites',sorted(truth),'L',len(anc))
    print('seed',seed,'n',n,'bad',bad)
run(int(sys.argv[1]),int(sys.argv[2]))
