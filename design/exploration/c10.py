from c06 import *
def fam_amb(b): return b not in 'ACGTU-'
def m_filter(T,ns,filt,thr,fam,mask,nogap):
    out={}
    for kk,bases in T.items():
        cnt=sum(1 for b in bases if b!='-' and (not fam or not fam_amb(b)))
        if cnt<max(1,thr): continue
        if filt=='no-filter': keep=True
        elif filt=='no-const': keep=len(set(b for b in bases if not(nogap and b=='-')))>1
        elif filt=='no-ambig': keep=not any(fam_amb(b) for b in bases)
        else: keep=len(set(b for b in bases if (b in 'ACGT') or (b=='-' and not nogap)))>1
        if keep: out[kk]=['N' if (mask and fam_amb(b)) else b for b in bases]
    return out
def tab(path,k):
    q=sh(SKA,'nk','--full-info',path); assert q.returncode==0,q.stderr[-200:]
    hdr,t=parse_nk(q.stdout,k); return eval(hdr['sample_names']),t
def align_cols(path,args):
    a=sh(SKA,'align',path,*args)
    if a.returncode!=0: return ('FAIL',a.stderr[-100:])
    names=[];seqs=[]
    for l in a.stdout.split('\n'):
        if l.startswith('>'): names.append(l[1:]); seqs.append('')
        elif l: seqs[-1]+=l
    return names,sorted(''.join(s[i] for s in seqs) for i in range(len(seqs[0]))) if seqs and seqs[0] else []
def fresh(d,names,T,k,out):
    # build a fresh skf with same content via FASTA (requires each sample non-empty)
    h=(k-1)//2; fns=[]
    for s,nm in enumerate(names):
        os.makedirs(d+'/fr',exist_ok=True); fn=f'{d}/fr/{nm}.fa'; fns.append(fn); n=0
        with open(fn,'w') as f:
            for arms,bases in T.items():
                if bases[s]=='-': continue
                for m in sorted(CODES[bases[s]]): f.write(f'>r{n}\n{arms[:h]}{m}{arms[h:]}N\n'); n+=1
        if n==0: return False
    p=sh(SKA,'build','-k',str(k),'-o',out,*fns); assert p.returncode==0,p.stderr[-300:]
    return True
def run10(seed,n):
    rng=random.Random(seed); bad=0; fin=0
    d=f'/tmp/exp/p/h{seed}'; shutil.rmtree(d,ignore_errors=True); os.makedirs(d)
    for it in range(n):
        k=rng.choice([5,9,15,31,33,41]); ns=rng.randint(2,6)
        rows=make_table(rng,k,ns,rng.randint(3,40))
        fns=write_samples(d,rows,k,ns)
        if not fns: continue
        names=[f's{i}' for i in range(ns)]
        # start: build as 2 files then merge, or one
        T=dict(rows); cur=d+'/cur.skf'
        p=sh(SKA,'build','-k',str(k),'-o',d+'/cur',*fns); assert p.returncode==0
        hist=[]
        extra_id=0
        for step in range(rng.randint(1,8)):
            op=rng.choice(['merge','delete','weed','rweed','filter','filter','reload'])
            n_=len(names)
            if op=='merge':
                r2=make_table(rng,k,1,rng.randint(1,10))
                # share some kmers
                for kk in rng.sample(list(T),min(len(T),3)): r2[kk]=[rng.choice('ACGTR')]
                nm=f'x{extra_id}'; extra_id+=1
                h=(k-1)//2
                with open(f'{d}/{nm}.fa','w') as f:
                    i=0
                    for arms,b in r2.items():
                        for m in sorted(CODES[b[0]]): f.write(f'>r{i}\n{arms[:h]}{m}{arms[h:]}N\n'); i+=1
                sh(SKA,'build','-k',str(k),'-o',f'{d}/{nm}',f'{d}/{nm}.fa')
                first=rng.random()<0.5
                args=[f'{d}/{nm}.skf',cur] if first else [cur,f'{d}/{nm}.skf']
                p=sh(SKA,'merge',*args,'-o',d+'/mrg'); assert p.returncode==0,p.stderr[-200:]
                shutil.move(d+'/mrg.skf',cur)
                keys=set(T)|set(r2)
                if first:
                    T={kk:r2.get(kk,['-'])+T.get(kk,['-']*n_) for kk in keys}; names=[nm]+names
                else:
                    T={kk:T.get(kk,['-']*n_)+r2.get(kk,['-']) for kk in keys}; names=names+[nm]
            elif op=='delete':
                if n_<2: continue
                dn=rng.sample(range(n_),rng.randint(1,n_-1))
                p=sh(SKA,'delete','-s',cur,*[names[i] for i in dn]); assert p.returncode==0,p.stderr[-200:]
                keep=[i for i in range(n_) if i not in dn]
                T={kk:[v[i] for i in keep] for kk,v in T.items() if any(v[i]!='-' for i in keep)}
                names=[names[i] for i in keep]
            elif op in('weed','rweed'):
                if len(T)<2: continue
                ws=rng.sample(list(T),rng.randint(1,max(1,len(T)//3)))
                h=(k-1)//2
                with open(d+'/w.fa','w') as f:
                    for i,arms in enumerate(ws):
                        s=arms[:h]+'A'+arms[h:]
                        if rng.random()<0.5: s=rc(s)
                        f.write(f'>w{i}\n{s}N\n')
                p=sh(SKA,'weed',cur,d+'/w.fa','--min-freq','0',*(['--reverse'] if op=='rweed' else [])); assert p.returncode==0,p.stderr[-200:]
                T={kk:v for kk,v in T.items() if (kk in ws)==(op=='rweed')}
            elif op=='filter':
                filt=rng.choice(['no-filter','no-const','no-ambig','no-ambig-or-const'])
                mf=rng.choice([0.0,1.0,0.5 if n_%2==0 else 1.0, 0.25 if n_%4==0 else 0.0])
                fam=rng.random()<0.5; mask=rng.random()<0.3; nogap=rng.random()<0.3
                thr=math.floor(n_*mf)
                p=sh(SKA,'weed',cur,'--filter',filt,'--min-freq',repr(mf),*(['--filter-ambig-as-missing'] if fam else []),*(['--ambig-mask'] if mask else []),*(['--no-gap-only-sites'] if nogap else []))
                assert p.returncode==0,p.stderr[-200:]
                if thr>0 or filt!='no-filter' or mask or nogap:
                    T=m_filter(T,n_,filt,thr,fam,mask,nogap)
                op=f'filter({filt},{mf},fam={fam},mask={mask},nogap={nogap})'
            elif op=='reload':
                pass
            hist.append(op)
            if not T: break
            gn,gt=tab(cur,k)
            if gn!=names or gt!=T:
                bad+=1; print('TABLE MISMATCH after',hist,'k',k); break
        else:
            if not T: continue
            if fresh(d,names,T,k,d+'/fresh'):
                fin+=1
                for rep in range(4):
                    filt=rng.choice(['no-filter','no-const','no-ambig','no-ambig-or-const'])
                    mf=rng.choice([0.0,1.0,0.5,0.9])
                    args=['--filter',filt,'--min-freq',repr(mf)]+(['--filter-ambig-as-missing'] if rng.random()<0.5 else [])+(['--ambig-mask'] if rng.random()<0.3 else [])
                    a=align_cols(cur,args); b=align_cols(d+'/fresh.skf',args)
                    if a!=b: bad+=1; print('ALIGN DIFF hist',hist,'args',args,'k',k,len(a[1]),len(b[1])); break
                da=sh(SKA,'distance',cur,'--min-freq',repr(rng.choice([0.0,0.5,1.0]))).stdout
    print('seed',seed,'n',n,'final-compared',fin,'bad',bad)
if __name__=='__main__': run10(int(sys.argv[1]),int(sys.argv[2]))
