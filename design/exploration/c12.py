from model import *
import shutil
SKA=os.environ.get('SKA','/tmp/ska_scratch/target/release/ska')
def rseq(rng,n): return ''.join(rng.choice('ACGT') for _ in range(n))
def sh(*a): return subprocess.run(list(a),capture_output=True,text=True)
def fq_model(reads,k,rcmode,minc,minq,rule):
    h=(k-1)//2
    cnt={}
    for seq,qual in reads:
        seq=seq.upper()
        for i in range(len(seq)-k+1):
            w=seq[i:i+k]
            if 'N' in w: continue
            q=[ord(c)-33 for c in qual[i:i+k]]
            if rule=='strict' and min(q)<minq: continue
            if rule=='middle' and q[h]<minq: continue
            key_=min(w,rc(w)) if rcmode else w
            cnt[key_]=cnt.get(key_,0)+1
    d={}
    for w,c in cnt.items():
        if c>=minc:
            sk=w[:h]+w[h+1:]; m=w[h]
            if rcmode:
                r=rc(w); rsk=r[:h]+r[h+1:]; rm=r[h]
                if key(sk)>key(rsk): sk,m=rsk,rm
                elif sk==rsk: d.setdefault(sk,set()).update([m,COMP[m]]); continue
            d.setdefault(sk,set()).add(m)
    return {sk:IUPAC[frozenset(v)] for sk,v in d.items()}, cnt
def run(seed,n):
    rng=random.Random(seed); bad=0
    d=f'/tmp/exp/p/fq{seed}'; shutil.rmtree(d,ignore_errors=True); os.makedirs(d)
    for it in range(n):
        k=rng.choice(range(5,64,2)); rcmode=rng.random()<0.7
        minc=rng.randint(1,6); minq=rng.choice([0,2,10,20,30,40]); rule=rng.choice(['none','middle','strict'])
        G=rseq(rng,rng.randint(2*k,6*k))
        reads=[[],[]]
        cov=rng.randint(2,12)
        nreads=max(2,cov*len(G)//(2*k))
        for r in range(nreads):
            L=rng.randint(k,min(len(G),3*k))
            a=rng.randrange(len(G)-L+1); s=list(G[a:a+L])
            for j in range(L):
                if rng.random()<0.02: s[j]=rng.choice('ACGTN')
            s=''.join(s)
            if rng.random()<0.5: s=''.join({'A':'T','C':'G','G':'C','T':'A','N':'N'}[c] for c in reversed(s))
            q=''.join(chr(33+rng.choice([minq,minq,max(0,minq-1),min(41,minq+1),rng.randint(0,41)])) for _ in range(L))
            reads[r%2].append((s,q))
        for j in (0,1):
            with open(f'{d}/r{j}.fastq','w') as f:
                for i,(s,q) in enumerate(reads[j]): f.write(f'@r{i}\n{s}\n+\n{q}\n')
        open(d+'/list','w').write(f'S\t{d}/r0.fastq\t{d}/r1.fastq\n')
        exp,cnt=fq_model(reads[0]+reads[1],k,rcmode,minc,minq,rule)
        p=sh(SKA,'build','-k',str(k),'-f',d+'/list','-o',d+'/o','--min-count',str(minc),'--min-qual',str(minq),'--qual-filter',{'none':'no-filter'}.get(rule,rule),*([] if rcmode else ['--single-strand']))
        if p.returncode!=0:
            if exp: bad+=1; print('FAIL build',k,minc,minq,rule,len(exp),p.stderr[-200:])
            continue
        q=sh(SKA,'nk','--full-info',d+'/o.skf'); hdr,T=parse_nk(q.stdout,k); T={a:b[0] for a,b in T.items()}
        if T!=exp:
            bad+=1
            miss=[x for x in exp if x not in T]; extra=[x for x in T if x not in exp]; diff=[x for x in exp if x in T and T[x]!=exp[x]]
            print('MISMATCH k',k,'rc',rcmode,'minc',minc,'minq',minq,rule,'missing',len(miss),'extra',len(extra),'diffbase',len(diff),'of',len(exp))
    print('seed',seed,'n',n,'bad',bad)
run(int(sys.argv[1]),int(sys.argv[2]))
