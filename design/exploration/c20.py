from model import *
import shutil, re
SKA=os.environ.get('SKA','/tmp/ska_scratch/target/release/ska')
def rseq(rng,n): return ''.join(rng.choice('ACGT') for _ in range(n))
def sh(*a): return subprocess.run(list(a),capture_output=True,text=True)
def run(seed,n):
    rng=random.Random(seed); bad=0; conv=0
    d=f'/tmp/exp/p/cov{seed}'; shutil.rmtree(d,ignore_errors=True); os.makedirs(d)
    for it in range(n):
        k=rng.choice([9,15,21,31,33,41,63]) if rng.random()<0.6 else rng.choice(range(9,64,2)); rcmode=rng.random()<0.7
        G=rseq(rng,rng.randint(3000,8000)); cov=rng.randint(10,80); err=rng.choice([0,0.005,0.01,0.03])
        RL=rng.choice([100,150]); nreads=cov*len(G)//RL
        reads=[[],[]]
        for r in range(nreads):
            a=rng.randrange(len(G)-RL+1); s=list(G[a:a+RL])
            for j in range(RL):
                if rng.random()<err: s[j]=rng.choice('ACGT')
                elif rng.random()<0.001: s[j]='N'
            s=''.join(s)
            if rng.random()<0.5: s=''.join({'A':'T','C':'G','G':'C','T':'A','N':'N'}[c] for c in reversed(s))
            reads[r%2].append(s)
        for j in (0,1):
            with open(f'{d}/r{j}.fastq','w') as f:
                for i,s in enumerate(reads[j]): f.write(f'@r{i}\n{s}\n+\n{"I"*len(s)}\n')
        # model counts of split kmers
        h=(k-1)//2; cnt={}
        for s in reads[0]+reads[1]:
            for i,w in windows(s,k):
                sk=w[:h]+w[h+1:]
                if rcmode:
                    r=rc(w); rsk=r[:h]+r[h+1:]
                    if key(sk)>key(rsk): sk=rsk
                cnt[sk]=cnt.get(sk,0)+1
        hist={}
        for c in cnt.values(): hist[c]=hist.get(c,0)+1
        mx=max([c for c,v in hist.items() if v>=50 and c<=1000],default=0)
        exp=[hist.get(c,0) for c in range(1,mx+1)]
        p=sh(SKA,'cov',f'{d}/r0.fastq',f'{d}/r1.fastq','-k',str(k),*([] if rcmode else ['--single-strand']))
        if p.returncode!=0:
            print('  cov failed (fit?)',k,cov,err,p.stderr.strip().split('\n')[-3:][:1]); continue
        conv+=1
        rows=[l.split('\t') for l in p.stdout.strip().split('\n')[1:]]
        got=[int(r[1]) for r in rows]; idx=[int(r[0]) for r in rows]
        cutoff=int(re.search(r'Estimated cutoff\t(\d+)',p.stderr).group(1))
        lab=[r[3] for r in rows]
        ok = got==exp and idx==list(range(1,len(rows)+1)) and all((l=='Error')==(i<cutoff) for i,l in zip(idx,lab)) and 1<=cutoff<=max(1,len(rows))
        if not ok: bad+=1; print('MISMATCH k',k,'cov',cov,'err',err,'cutoff',cutoff,'rows',len(rows),'exp rows',len(exp), got[:5],exp[:5])
        else: print('  ok k',k,'cov',cov,'err',err,'cutoff',cutoff,'rows',len(rows))
    print('seed',seed,'n',n,'converged',conv,'bad',bad)
run(int(sys.argv[1]),int(sys.argv[2]))
