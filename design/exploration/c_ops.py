# exploratory: C02 C03 C07 C08 C13 via CLI
from model import *
import gzip, shutil
SKA=os.environ.get('SKA','/tmp/ska_scratch/target/release/ska')
def rseq(rng,n): return ''.join(rng.choice('ACGT') for _ in range(n))
def sh(*a): return subprocess.run(list(a),capture_output=True,text=True)
def table(path,k):
    q=sh(SKA,'nk','--full-info',path); assert q.returncode==0,q.stderr[-300:]
    hdr,t=parse_nk(q.stdout,k); return hdr,t
def names_of(hdr): return eval(hdr['sample_names'])
def model_table(samples,k,rcmode):
    ds=[build(recs,k,rcmode) for recs in samples]
    keys=set().union(*[set(d) for d in ds])
    return {kk:[d.get(kk,'-') for d in ds] for kk in keys}
def write_fa(fn,recs,rng=None,wrap=0,gz=False):
    txt=''
    for j,r in enumerate(recs):
        txt+=f'>x{j}\n'
        if wrap: txt+='\n'.join(r[i:i+wrap] for i in range(0,len(r),wrap))+'\n'
        else: txt+=r+'\n'
    if gz: gzip.open(fn,'wt').write(txt)
    else: open(fn,'w').write(txt)
def gen_samples(rng,k,ns):
    base=[rseq(rng,rng.randint(k,5*k)) for _ in range(rng.randint(1,3))]
    out=[]
    for _ in range(ns):
        recs=[]
        for b in base:
            s=list(b)
            for _ in range(rng.choice([0,1,2])):
                s[rng.randrange(len(s))]=rng.choice('ACGTN')
            recs.append(''.join(s))
        if rng.random()<0.4: recs.append(rseq(rng,rng.randint(k,3*k)))
        out.append(recs)
    return out
def run(seed,n):
    rng=random.Random(seed); bad={}
    d=f'/tmp/exp/p/ops{seed}'; shutil.rmtree(d,ignore_errors=True); os.makedirs(d)
    def fail(tag,*info):
        bad[tag]=bad.get(tag,0)+1; print('FAIL',tag,*[str(x)[:300] for x in info])
    for it in range(n):
        k=rng.choice(range(5,64,2)); rcmode=rng.random()<0.7
        ss=[] if rcmode else ['--single-strand']
        ns=rng.randint(2,6)
        samples=gen_samples(rng,k,ns)
        fns=[]
        for i,recs in enumerate(samples):
            fn=f'{d}/s{i}.fa'; write_fa(fn,recs); fns.append(fn)
        p=sh(SKA,'build','-k',str(k),'-o',d+'/all',*fns,*ss)
        if p.returncode!=0: fail('build',p.stderr[-200:]); continue
        hdr,T=table(d+'/all.skf',k)
        M=model_table(samples,k,rcmode)
        if T!=M or names_of(hdr)!=[f's{i}' for i in range(ns)]: fail('C01-multi',k,rcmode,samples)
        # ---- C02 transforms
        fns2=[]
        for i,recs in enumerate(samples):
            r2=[]
            for r in recs:
                if rcmode and rng.random()<0.5:
                    r=''.join({'A':'T','C':'G','G':'C','T':'A','N':'N'}[c] for c in reversed(r))
                r=''.join(c.lower() if rng.random()<0.3 else c for c in r)
                r2.append(r)
            rng.shuffle(r2)
            gz=rng.random()<0.3
            fn=f'{d}/t{i}.fa'+('.gz' if gz else ''); write_fa(fn,r2,wrap=rng.choice([0,7,60]),gz=gz); fns2.append(fn)
        perm=list(range(ns)); rng.shuffle(perm)
        p=sh(SKA,'build','-k',str(k),'-o',d+'/tr',*[fns2[i] for i in perm],*ss)
        if p.returncode!=0: fail('C02-build',p.stderr[-200:])
        else:
            h2,T2=table(d+'/tr.skf',k)
            exp={kk:[v[i] for i in perm] for kk,v in T.items()}
            if T2!=exp: fail('C02',k,rcmode)
        # ---- C07 merge partitions
        parts=[]; idx=list(range(ns)); 
        nparts=rng.randint(2,min(4,ns))
        cuts=sorted(rng.sample(range(1,ns),nparts-1))
        prev=0
        for c in cuts+[ns]: parts.append(idx[prev:c]); prev=c
        pf=[]
        for j,pt in enumerate(parts):
            sh(SKA,'build','-k',str(k),'-o',f'{d}/p{j}',*[fns[i] for i in pt],*ss); pf.append(f'{d}/p{j}.skf')
        if len(pf)>2 and rng.random()<0.5:
            sh(SKA,'merge',pf[0],pf[1],'-o',d+'/m01'); p=sh(SKA,'merge',d+'/m01.skf',*pf[2:],'-o',d+'/m')
        else: p=sh(SKA,'merge',*pf,'-o',d+'/m')
        if p.returncode!=0: fail('C07-merge',k,p.stderr[-300:])
        else:
            hm,Tm=table(d+'/m.skf',k)
            if Tm!=T or names_of(hm)!=names_of(hdr): fail('C07',k,rcmode,parts)
        # incompatible merge
        k2=k+2 if k<63 else k-2
        sh(SKA,'build','-k',str(k2),'-o',d+'/bad',fns[0],*ss)
        if os.path.exists(d+'/bm.skf'): os.remove(d+'/bm.skf')
        p=sh(SKA,'merge',pf[0],d+'/bad.skf','-o',d+'/bm')
        if p.returncode==0 or os.path.exists(d+'/bm.skf'): fail('C07-refuse-k',k,k2,p.returncode)
        sh(SKA,'build','-k',str(k),'-o',d+'/bad2',fns[0],*([] if not rcmode else ['--single-strand']))
        p=sh(SKA,'merge',pf[0],d+'/bad2.skf','-o',d+'/bm')
        if p.returncode==0 or os.path.exists(d+'/bm.skf'): fail('C07-refuse-rc',k,p.returncode)
        # ---- C08 delete
        dn=rng.sample(range(ns),rng.randint(1,ns-1))
        shutil.copy(d+'/all.skf',d+'/del.skf')
        if rng.random()<0.5:
            open(d+'/names.txt','w').write(''.join(f's{i}\n' for i in dn))
            p=sh(SKA,'delete','-s',d+'/del.skf','-f',d+'/names.txt')
        else: p=sh(SKA,'delete','-s',d+'/del.skf',*[f's{i}' for i in dn])
        if p.returncode!=0: fail('C08-del',p.stderr[-300:])
        else:
            hd,Td=table(d+'/del.skf',k)
            keep=[i for i in range(ns) if i not in dn]
            exp={kk:[v[i] for i in keep] for kk,v in T.items() if any(v[i]!='-' for i in keep)}
            if Td!=exp or names_of(hd)!=[f's{i}' for i in keep]: fail('C08',k,dn)
        before=open(d+'/all.skf','rb').read(); shutil.copy(d+'/all.skf',d+'/del2.skf')
        p=sh(SKA,'delete','-s',d+'/del2.skf','s0','nosuch')
        if p.returncode==0 or open(d+'/del2.skf','rb').read()!=before: fail('C08-refuse-missing')
        p=sh(SKA,'delete','-s',d+'/del2.skf',*[f's{i}' for i in range(ns)])
        if p.returncode==0 or open(d+'/del2.skf','rb').read()!=before: fail('C08-refuse-all')
        # ---- C13 weed
        wrecs=[]
        for _ in range(rng.randint(1,3)):
            src=rng.choice(rng.choice(samples))
            a=rng.randrange(len(src)); b=min(len(src),a+rng.randint(k,3*k)); w=src[a:b]
            if rng.random()<0.5: w=''.join({'A':'T','C':'G','G':'C','T':'A','N':'N'}[c] for c in reversed(w))
            if rng.random()<0.3: w=rseq(rng,rng.randint(k,2*k))
            wrecs.append(w)
        write_fa(d+'/weed.fa',wrecs)
        wk=set(build(wrecs,k,rcmode))
        if not wk: continue
        for rev in (False,True):
            shutil.copy(d+'/all.skf',d+'/w.skf')
            p=sh(SKA,'weed',d+'/w.skf',d+'/weed.fa','--min-freq','0',*(['--reverse'] if rev else []))
            if p.returncode!=0: fail('C13-run',p.stderr[-300:]); continue
            hw,Tw=table(d+'/w.skf',k)
            exp={kk:v for kk,v in T.items() if (kk in wk)==rev}
            if Tw!=exp or names_of(hw)!=names_of(hdr): fail('C13',k,rev,len(T),len(Tw),len(exp))
            p=sh(SKA,'weed',d+'/w.skf',d+'/weed.fa','--min-freq','0',*(['--reverse'] if rev else []))
            hw2,Tw2=table(d+'/w.skf',k)
            if Tw2!=Tw: fail('C13-idem')
    print('seed',seed,'n',n,'bad',bad)
run(int(sys.argv[1]),int(sys.argv[2]))
