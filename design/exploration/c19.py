import subprocess,os,sys,concurrent.futures as cf
SKA=os.environ.get('SKA','/tmp/ska_scratch/target/release/ska')
src=sys.argv[1]; data=open(src,'rb').read()
ref=subprocess.run([SKA,'nk','--full-info',src],capture_output=True).stdout
os.makedirs('/tmp/exp/p/dmg',exist_ok=True)
def norm(out):
    # compare content only: k, rc, names, table (set of lines)
    return sorted(l for l in out.decode().split('\n') if l and not l.startswith('ska_version') and not l.startswith('k_bits'))
R=norm(ref)
def trial(job):
    kind,i,b=job
    if kind=='p': d=data[:i]
    else:
        d=bytearray(data); d[i]^=(1<<b); d=bytes(d)
    fn=f'/tmp/exp/p/dmg/{os.getpid()}.skf'
    open(fn,'wb').write(d)
    p=subprocess.run([SKA,'nk','--full-info',fn],capture_output=True)
    if p.returncode!=0: return ('rej',job)
    return ('same' if norm(p.stdout)==R else 'DIFF',job)
jobs=[('p',i,0) for i in range(len(data))]+[('f',i,b) for i in range(len(data)) for b in range(8)]
res={'rej':0,'same':0,'DIFF':0}; diffs=[];sames=[]
with cf.ProcessPoolExecutor(16) as ex:
    for r,j in ex.map(trial,jobs,chunksize=64):
        res[r]+=1
        if r=='DIFF': diffs.append(j)
        if r=='same': sames.append(j)
print(len(data),'bytes',res,'diffs',diffs[:10],'same',sames[:10])
