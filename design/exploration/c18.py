from model import *
SKA=os.environ.get('SKA','/tmp/ska_scratch/target/release/ska')
def rseq(rng,n): return ''.join(rng.choice('ACGT') for _ in range(n))
def pan_unique(ss,k):
    # every (k-1)-mer maps to one "locus id": here just demand each sample individually has unique (k-1)-mers both strands
    for t in ss:
        seen=set()
        for i in range(len(t)-(k-1)+1):
            w=t[i:i+k-1]; r=rc(w)
            if w==r or w in seen or r in seen: return False
            seen.add(w)
    return True
def gen(rng,k,nind,ns):
    while True:
        L=8*k+(nind-1)*(4*k+rng.randint(0,k))+rng.randint(0,2*k)
        anc=rseq(rng,L)
        sites=[]; p=4*k+rng.randint(0,k//2)
        for _ in range(nind):
            if p>=L-4*k: break
            sites.append(p); p+=4*k+rng.randint(0,k)
        if not sites: continue
        indels=[]
        for s in sites:
            ln=rng.randint(1,min(10,k-1))
            kind=rng.choice(['ins','del'])
            while True:
                carriers=[rng.random()<0.5 for _ in range(ns)]
                if any(carriers) and not all(carriers): break
            ins=rseq(rng,ln) if kind=='ins' else None
            indels.append((s,kind,ln,ins,carriers))
        ss=[]
        for i in range(ns):
            t=anc; 
            for (s,kind,ln,ins,car) in sorted(indels,reverse=True):
                if car[i]:
                    t = t[:s]+ins+t[s:] if kind=='ins' else t[:s]+t[s+ln:]
            ss.append(t)
        # strict union uniqueness by locus is complex with indels; require per-sample uniqueness and ancestor uniqueness
        if pan_unique(ss+[anc],k): return anc,ss,indels
def run(seed,n):
    rng=random.Random(seed); bad=0; planted=0; found=0
    d=f'/tmp/exp/p/i{seed}'; os.makedirs(d,exist_ok=True)
    for it in range(n):
        k=rng.choice([11,15,21,31])
        ns=rng.randint(3,8)
        anc,ss,indels=gen(rng,k,rng.randint(1,3),ns)
        fns=[]
        for i,s in enumerate(ss):
            fn=f'{d}/s{i}.fa'; fns.append(fn)
            open(fn,'w').write(f'>x\n{s if rng.random()<0.5 else rc(s)}\n')
        subprocess.run([SKA,'build','-k',str(k),'-o',d+'/o']+fns,capture_output=True,text=True,check=True)
        for f in os.listdir(d):
            if f.startswith('out_'): os.remove(d+'/'+f)
        thr=rng.choice([1,2,4])
        p=subprocess.run([SKA,'lo',d+'/o.skf',d+'/out','--threads',str(thr)],capture_output=True,text=True)
        if p.returncode!=0:
            bad+=1; print('LO FAILED',k,ns,indels,p.stderr[-200:]); continue
        recs=[]
        for l in open(d+'/out_indels.vcf'):
            if l.startswith('#'): continue
            f=l.rstrip('\n').split('\t')
            ref,alt,info,gts=f[3],f[4],f[6],f[9:]
            before=info.split(';')[0].split('=')[1]; after=info.split(';')[1].split('=')[1]
            recs.append((ref,alt,before,after,gts))
        planted+=len(indels)
        matched=set()
        for (ref,alt,before,after,gts) in recs:
            rs=before+ref.replace('-','')+after; as_=before+alt.replace('-','')+after
            ok=True
            for i,g in enumerate(gts):
                hasr = rs in ss[i] or rc(rs) in ss[i]
                hasa = as_ in ss[i] or rc(as_) in ss[i]
                if g=='0' and not (hasr and not hasa): ok=False
                if g=='1' and not (hasa and not hasr): ok=False
                if g=='.' and (hasr or hasa): ok=False
                if g=='0/1' and not (hasr and hasa): ok=False
            # match to planted
            m=None
            for j,(s,kind,ln,ins,car) in enumerate(indels):
                carr=''.join('1' if c else '0' for c in car)
                g=''.join(gts)
                # allele lengths differ by ln and carriers split identical (either polarity)
                if abs(len(ref.replace('-',''))-len(alt.replace('-','')))==ln and (set(i for i,c in enumerate(car) if c) in (set(i for i,x in enumerate(gts) if x=='0'), set(i for i,x in enumerate(gts) if x=='1'))):
                    m=j
            if not ok: bad+=1; print('UNSOUND record',k,ns,(ref,alt,before,after,gts),indels)
            elif m is None: bad+=1; print('UNMATCHED record',k,ns,(ref,alt,before,after,gts),indels)
            elif m in matched: bad+=1; print('DUPLICATE record',k,(ref,alt,before,after,gts),indels)
            else: matched.add(m)
        found+=len(matched)
        if len(matched)<len(indels): print('  missed',k,ns,thr,[indels[j] for j in range(len(indels)) if j not in matched], 'recs',len(recs))
    print('seed',seed,'n',n,'bad',bad,'planted',planted,'found',found)
run(int(sys.argv[1]),int(sys.argv[2]))
