from model import *
SKA=os.environ.get('SKA','/tmp/ska_scratch/target/release/ska')
def rand_seq(rng,n,pn=0.02,lc=0.2):
    s=[]
    for _ in range(n):
        c=rng.choice('ACGT')
        if rng.random()<pn: c='N'
        if rng.random()<lc: c=c.lower()
        s.append(c)
    return ''.join(s)
def gen(rng,k):
    recs=[]
    mode=rng.randrange(6)
    nrec=rng.randint(1,4)
    for _ in range(nrec):
        L=rng.choice([k-1,k,k+1,k+2,2*k,rng.randint(k,6*k)])
        s=rand_seq(rng,L,pn=rng.choice([0,0,0.01,0.05]))
        if mode==1 and L>k+2:
            # N at distance k+1 from end
            s=s[:L-k-1]+'N'+s[L-k:]
        if mode==2 and L>=2*k:
            # repeat with different middle
            w=s[:k]; h=(k-1)//2
            for b in 'ACG':
                s+= 'N'+w[:h]+b+w[h+1:]
        if mode==3:
            # palindromic arms: arm + X + rc(arm)
            h=(k-1)//2
            arm=''.join(rng.choice('ACGT') for _ in range(h))
            s+='N'+arm+rng.choice('ACGT')+rc(arm)
            if rng.random()<0.5: s+='n'+arm+rng.choice('ACGT')+rc(arm)
        if mode==4 and recs:
            s=rc(recs[0].upper().replace('N','A')) if rng.random()<0.5 else s
        recs.append(s)
    return recs
def run(seed,n):
    rng=random.Random(seed)
    bad=0
    for it in range(n):
        k=rng.choice(range(5,64,2))
        rcmode=rng.random()<0.6
        recs=gen(rng,k)
        exp=build(recs,k,rcmode)
        d=f'/tmp/exp/p/w{seed}'; os.makedirs(d,exist_ok=True)
        with open(d+'/in.fa','w') as f:
            for i,r in enumerate(recs):
                f.write(f'>r{i}\n')
                w=rng.choice([0,10,60])
                if w: 
                    for j in range(0,len(r),w): f.write(r[j:j+w]+'\n')
                    if not r: f.write('\n')
                else: f.write(r+'\n')
        args=[SKA,'build','-k',str(k),'-o',d+'/o',d+'/in.fa']+([] if rcmode else ['--single-strand'])
        p=subprocess.run(args,capture_output=True,text=True)
        if p.returncode!=0:
            if exp: 
                print('FAIL build',k,rcmode,recs,p.stderr[-300:]); bad+=1
            continue
        if not exp:
            print('UNEXPECTED success with empty model',k,recs); bad+=1; continue
        q=subprocess.run([SKA,'nk','--full-info',d+'/o.skf'],capture_output=True,text=True)
        hdr,got=parse_nk(q.stdout,k)
        got={a:b[0] for a,b in got.items()}
        if got!=exp:
            bad+=1
            print('MISMATCH k',k,'rc',rcmode,'recs',recs)
            for x in set(got)|set(exp):
                if got.get(x)!=exp.get(x): print('   ',x,'got',got.get(x),'exp',exp.get(x))
    print('seed',seed,'n',n,'bad',bad)
run(int(sys.argv[1]),int(sys.argv[2]))
