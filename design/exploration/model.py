# exploratory prototype (not framework code): reference model of ska build / nk
import random, subprocess, os, sys, itertools
ORD = {'A':0,'C':1,'T':2,'G':3}
COMP = {'A':'T','C':'G','G':'C','T':'A'}
IUPAC = {frozenset('A'):'A',frozenset('C'):'C',frozenset('G'):'G',frozenset('T'):'T',
 frozenset('AG'):'R',frozenset('CT'):'Y',frozenset('CG'):'S',frozenset('AT'):'W',frozenset('GT'):'K',frozenset('AC'):'M',
 frozenset('CGT'):'B',frozenset('AGT'):'D',frozenset('ACT'):'H',frozenset('ACG'):'V',frozenset('ACGT'):'N'}
def rc(s): return ''.join(COMP[c] for c in reversed(s))
def key(s): return [ORD[c] for c in s]
def windows(seq,k):
    seq=seq.upper()
    for i in range(len(seq)-k+1):
        w=seq[i:i+k]
        if 'N' in w: continue
        yield i,w
def build(records,k,rcmode):
    h=(k-1)//2
    d={}
    for seq in records:
        for i,w in windows(seq,k):
            sk=w[:h]+w[h+1:]; m=w[h]
            if rcmode:
                r=rc(w); rsk=r[:h]+r[h+1:]; rm=r[h]
                if key(sk)>key(rsk):
                    sk,m=rsk,rm
                elif sk==rsk:
                    d.setdefault(sk,set()).update([m,COMP[m]]); continue
            d.setdefault(sk,set()).add(m)
    return {sk:IUPAC[frozenset(v)] for sk,v in d.items()}
def parse_nk(txt,k):
    h=(k-1)//2
    out={}; hdr={}
    lines=txt.split('\n')
    i=0
    while i<len(lines) and lines[i].strip()!='':
        if '=' in lines[i]:
            a,b=lines[i].split('=',1); hdr[a]=b
        i+=1
    for l in lines[i:]:
        if not l.strip(): continue
        u,lo,b=l.split('\t')
        assert (u+lo) not in out
        out[u+lo]=b.split(',')
    return hdr,out
