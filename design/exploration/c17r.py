from model import *
SKA=os.environ.get('SKA','/tmp/ska_scratch/target/release/ska')
def rseq(rng,n): return ''.join(rng.choice('ACGT') for _ in range(n))
def unique_km1(seq,k):
    seen=set()
    for i in range(len(seq)-(k-1)+1):
        w=seq[i:i+k-1]; r=rc(w)
        if w in seen or r in seen: return False
        if w==r: return False
        seen.add(w)
    return True
def gen(rng,k,nsnp,ns):
    while True:
        L=4*k+ (nsnp-1)*(2*k+rng.randint(0,k)) + rng.randint(0,3*k)
        anc=rseq(rng,L)
        if unique_km1(anc,k): break
    # sites at least 2k apart, >=2k from ends
    sites=[]; p=2*k+rng.randint(0,k//2)
    for _ in range(nsnp):
        if p>=L-2*k: break
        sites.append(p); p+=2*k+rng.randint(0,k)
    samples=[list(anc) for _ in range(ns)]
    truth={}
    for s in sites:
        alts=[b for b in 'ACGT' if b!=anc[s]]
        nall=rng.choice([2,2,2,3])
        alleles=[anc[s]]+rng.sample(alts,nall-1)
        while True:
            assign=[rng.choice(alleles) for _ in range(ns)]
            if len(set(assign))>=2: break
        for i in range(ns): samples[i][s]=assign[i]
        truth[s]=''.join(assign)
    ss=[''.join(x) for x in samples]
    # strict: every (k-1)-mer over the union of samples occurs at one locus only (both strands)
    loc={}
    for t in ss:
        for i in range(len(t)-(k-1)+1):
            w=t[i:i+k-1]; r=rc(w)
            if w==r: return gen(rng,k,nsnp,ns)
            for x,pos in ((w,i),(r,-i-1)):
                if loc.setdefault(x,pos)!=pos: return gen(rng,k,nsnp,ns)
    if not truth: return gen(rng,k,nsnp,ns)
    return anc,ss,truth
def cols(seqs):
    return sorted(''.join(s[i] for s in seqs) for i in range(len(seqs[0]))) if seqs and seqs[0] else []
def comp(c): return ''.join({'A':'T','C':'G','G':'C','T':'A','-':'-','N':'N'}[x] for x in c)
def canon(c): return min(c,comp(c))
def run(seed,n):
    rng=random.Random(seed); bad=0
    d=f'/tmp/exp/p/l{seed}'; os.makedirs(d,exist_ok=True)
    for it in range(n):
        k=rng.choice([15,17,21,31,33])
        ns=rng.randint(3,10)
        anc,samples,truth=gen(rng,k,rng.randint(1,6),ns)
        fns=[]
        for i,s in enumerate(samples):
            fn=f'{d}/s{i}.fa'; fns.append(fn)
            s2=s if rng.random()<0.5 else rc(s)
            open(fn,'w').write(f'>x\n{s2}\n')
        subprocess.run([SKA,'build','-k',str(k),'-o',d+'/o']+fns,capture_output=True,text=True,check=True)
        for f in os.listdir(d):
            if f.startswith('out_'): os.remove(d+'/'+f)
        thr=rng.choice([1,1,2,4])
        refseq=anc if rng.random()<0.7 else rc(anc)
        # sometimes the reference is one of the samples
        if rng.random()<0.3: refseq=samples[0]
        open(d+'/ref.fa','w').write('>R\n'+refseq+'\n')
        p=subprocess.run([SKA,'lo',d+'/o.skf',d+'/out','-r',d+'/ref.fa','--threads',str(thr)],capture_output=True,text=True)
        if p.returncode!=0:
            bad+=1; print('LO FAILED',k,ns,truth,p.stderr[-300:]); continue
        names,seqs=[],[]
        for l in open(d+'/out_snps.fas'):
            l=l.rstrip('\n')
            if l.startswith('>'): names.append(l[1:]); seqs.append('')
            else: seqs[-1]+=l
        # reference-mode checks
        L=len(anc); okref=True
        isrc = (refseq==rc(anc))
        vrecs=[]
        for l in open(d+'/out_snps.vcf'):
            if l.startswith('#'): continue
            f=l.rstrip().split('\t'); vrecs.append(f)
        pg_names,pg=[],[]
        for l in open(d+'/out_pseudo_genomes.fas'):
            l=l.rstrip('\n')
            if l.startswith('>'): pg_names.append(l[1:]); pg.append('')
            else: pg[-1]+=l
        for f in vrecs:
            pos=int(f[1])-1
            al=[f[3]]+f[4].split(',')
            dec=''.join('-' if g=='.' else al[int(g)] for g in f[9:])
            site = (L-1-pos) if isrc else pos
            if refseq is samples[0] or refseq==samples[0]:
                site=pos if not isrc else site
            tr=truth.get(site)
            if tr is None: okref=False; print('  REF-MODE spurious position',pos,f[3:5]); continue
            want = comp(tr) if isrc else tr
            if dec!=want: okref=False; print('  REF-MODE wrong alleles',pos,dec,want)
            if f[3]!=refseq[pos]: okref=False; print('  REF base wrong')
            for i in range(ns):
                if pg[i][pos]!=want[i]: okref=False; print('  pseudo genome disagrees',i,pos)
        if any(len(x)!=len(refseq) for x in pg): okref=False; print('  pseudo genome length')
        if not okref: bad+=1; print('REFMODE FAIL k',k,'ns',ns,'sites',sorted(truth))
        nrep=len(vrecs)
        got=sorted(canon(c) for c in cols(seqs))
        exp=got if True else None
        totrep=nrep
        exp=sorted(canon(c) for c in truth.values())
        if got!=exp or names!=[f's{i}' for i in range(ns)]:
            bad+=1; print('MISMATCH k',k,'ns',ns,'thr',thr,'exp',exp,'got',got,'sites',sorted(truth),'L',len(anc))
    print('seed',seed,'n',n,'bad',bad)
run(int(sys.argv[1]),int(sys.argv[2]))
