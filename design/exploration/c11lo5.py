from model import *
import hashlib
SKA=os.environ.get('SKA','/tmp/ska_scratch/target/release/ska')
def rseq(rng,n): return ''.join(rng.choice('ACGT') for _ in range(n))
def mutate(rng,s,rate):
    s=list(s); i=0; out=[]
    for c in s:
        r=rng.random()
        if r<rate*0.7: out.append(rng.choice('ACGT'))
        elif r<rate*0.85: pass
        elif r<rate: out.append(c); out.append(rseq(rng,rng.randint(1,5)))
        else: out.append(c)
    return ''.join(out)
def run(seed,n):
    rng=random.Random(seed); nd=0
    d=f'/tmp/exp/p/t{seed}'; os.makedirs(d,exist_ok=True)
    for it in range(n):
        k=rng.choice([15,17,21,31])
        anc=rseq(rng,rng.randint(800,3000))
        if rng.random()<0.5:
            a=rng.randrange(len(anc)-200); anc=anc+anc[a:a+rng.randint(40,200)]+rseq(rng,100)
        ns=rng.randint(3,8)
        # clonal-ish: a few shared variants
        vars_=[mutate(rng,anc,0.004) for _ in range(3)]
        fns=[]
        for i in range(ns):
            s=mutate(rng,rng.choice(vars_),0.002)
            fn=f'{d}/s{i}.fa'; fns.append(fn); open(fn,'w').write(f'>x\n{s}\n')
        open(d+'/ref.fa','w').write('>ref\n'+anc+'\n')
        subprocess.run([SKA,'build','-k',str(k),'-o',d+'/o']+fns,capture_output=True,text=True,check=True)
        sigs=set(); sig2=set()
        for rep in range(6):
            thr=[1,1,2,4,8,3][rep]
            for f in os.listdir(d):
                if f.startswith('out'): os.remove(d+'/'+f)
            p=subprocess.run([SKA,'lo',d+'/o.skf',d+'/out','-r',d+'/ref.fa','-m','0.3','--threads',str(thr)],capture_output=True,text=True)
            if p.returncode!=0: sigs.add('FAIL'); continue
            h=hashlib.md5()
            for f in ['out_snps.fas','out_snps.vcf','out_pseudo_genomes.fas']:
                h.update(open(d+'/'+f,'rb').read())
            sigs.add(h.hexdigest())
            sig2.add(hashlib.md5(open(d+'/out_indels.vcf','rb').read()).hexdigest())
        nsnp=open(d+'/out_snps.vcf').read().count('\n')-2
        if len(sigs)>1 or len(sig2)>1:
            nd+=1; print('NONDET k',k,'ns',ns,'snp-sigs',len(sigs),'indel-sigs',len(sig2),'nsnp',nsnp)
            for f in ['ref.fa','o.skf']: subprocess.run(['cp',d+'/'+f,f'{d}/keep_{it}_{f}'])
    print('seed',seed,'n',n,'nondet',nd)
run(int(sys.argv[1]),int(sys.argv[2]))
