from model import *
import shutil
SKA=os.environ.get('SKA','/tmp/ska_scratch/target/release/ska')
def rseq(rng,n): return ''.join(rng.choice('ACGT') for _ in range(n))
def sh(*a): return subprocess.run(list(a),capture_output=True,text=True)
def comp(c): return ''.join({'A':'T','C':'G','G':'C','T':'A','-':'-','N':'N'}[x] for x in c)
def split_kmers_loc(contigs,k):
    h=(k-1)//2; loc={}
    ok=True
    for ci,c in enumerate(contigs):
        for i in range(len(c)-k+1):
            w=c[i:i+k]; sk=w[:h]+w[h+1:]; r=rc(w); rsk=r[:h]+r[h+1:]
            if sk==rsk: return None
            can=min(sk,rsk,key=key)
            pos=(ci,i)
            if loc.setdefault(can,pos)!=pos: return None
    return loc
def gen(rng,k,ns):
    h=(k-1)//2
    while True:
        contigs=[rseq(rng,rng.randint(k+2,6*k)) for _ in range(rng.randint(1,3))]
        if split_kmers_loc(contigs,k) is None: continue
        samples=[[list(c) for c in contigs] for _ in range(ns)]
        truth=[]
        for ci,c in enumerate(contigs):
            p=h+rng.randint(0,h)
            while p<=len(c)-1-h:
                if rng.random()<0.7:
                    alts=[b for b in 'ACGT' if b!=c[p]]
                    alle=[c[p]]+rng.sample(alts,rng.choice([1,1,2,3]))
                    while True:
                        asg=[rng.choice(alle) for _ in range(ns)]
                        if len(set(asg))>1: break
                    for s in range(ns): samples[s][ci][p]=asg[s]
                    truth.append(''.join(asg))
                p+=h+1+rng.randint(0,k)
        ss=[[''.join(c) for c in s] for s in samples]
        # pan-uniqueness: each canonical split kmer over union maps to single (contig,offset)
        loc={}; good=True
        for s in ss:
            for ci,c in enumerate(s):
                for i in range(len(c)-k+1):
                    w=c[i:i+k]; sk=w[:h]+w[h+1:]; r=rc(w); rsk=r[:h]+r[h+1:]
                    if sk==rsk: good=False
                    can=min(sk,rsk,key=key)
                    if loc.setdefault(can,(ci,i))!=(ci,i): good=False
        if good and truth: return contigs,ss,truth
def run(seed,n):
    rng=random.Random(seed); bad=0
    d=f'/tmp/exp/p/a{seed}'; shutil.rmtree(d,ignore_errors=True); os.makedirs(d)
    for it in range(n):
        k=rng.choice(range(7,64,2)); ns=rng.randint(2,10)
        contigs,ss,truth=gen(rng,k,ns)
        fns=[]
        for i,s in enumerate(ss):
            fn=f'{d}/s{i}.fa'; fns.append(fn)
            with open(fn,'w') as f:
                order=list(range(len(s))); rng.shuffle(order)
                for j in order:
                    c=s[j] if rng.random()<0.5 else rc(s[j])
                    f.write(f'>c{j}\n{c}\n')
        sh(SKA,'build','-k',str(k),'-o',d+'/o',*fns)
        a=sh(SKA,'align','--min-freq','1',d+'/o.skf')
        names=[];seqs=[]
        for l in a.stdout.split('\n'):
            if l.startswith('>'): names.append(l[1:]); seqs.append('')
            elif l: seqs[-1]+=l
        got=sorted(min(c,comp(c)) for c in (''.join(s[i] for s in seqs) for i in range(len(seqs[0])))) if seqs and seqs[0] else []
        exp=sorted(min(c,comp(c)) for c in truth)
        if got!=exp or names!=[f's{i}' for i in range(ns)] or len(set(map(len,seqs)))!=1:
            bad+=1; print('MISMATCH k',k,'ns',ns,'exp',exp,'got',got)
    print('seed',seed,'n',n,'bad',bad)
run(int(sys.argv[1]),int(sys.argv[2]))
