from model import *
SKA=os.environ.get('SKA','/tmp/ska_scratch/target/release/ska')
RCI={'A':'T','C':'G','G':'C','T':'A','R':'Y','Y':'R','S':'S','W':'W','K':'M','M':'K','B':'V','V':'B','D':'H','H':'D','N':'N','-':'-'}
def rseq(rng,n): return ''.join(rng.choice('ACGT') for _ in range(n))
def mutate(rng,s,k):
    s=list(s)
    n=rng.choice([0,1,2,5])
    for _ in range(n):
        if not s: break
        i=rng.randrange(len(s)); t=rng.random()
        if t<0.6: s[i]=rng.choice('ACGT')
        elif t<0.8: del s[i]
        else: s.insert(i,rng.choice('ACGT'))
    return ''.join(s)
def gen_ref(rng,k):
    contigs=[]
    for _ in range(rng.randint(1,4)):
        L=rng.choice([k-2,k,k+1,2*k,3*k+rng.randint(0,40),rng.randint(k,8*k)])
        L=max(L,1)
        s=rseq(rng,L)
        if rng.random()<0.3 and L>k:
            i=rng.randrange(L); s=s[:i]+'N'*rng.randint(1,3)+s[i+1:]
        if rng.random()<0.3 and contigs and len(contigs[0])>=k:
            # repeat a chunk of earlier contig
            c0=contigs[rng.randrange(len(contigs))]
            a=rng.randrange(len(c0)); b=min(len(c0),a+rng.randint(k,2*k))
            chunk=c0[a:b].upper()
            if rng.random()<0.5 and 'N' not in chunk: chunk=rc(chunk)
            s=s+chunk+rseq(rng,rng.randint(0,k))
        if rng.random()<0.3:
            a=rng.randrange(len(s)); b=min(len(s),a+rng.randint(1,2*k)); s=s[:a]+s[a:b].lower()+s[b:]
        contigs.append(s)
    return contigs
def gen_samples(rng,ref,k):
    samples=[]
    for _ in range(rng.randint(1,3)):
        recs=[]
        for c in ref:
            c=c.upper()
            if rng.random()<0.15: continue
            m=mutate(rng,c,k)
            if rng.random()<0.3: m=rc(m.replace('N','A')) 
            if m: recs.append(m)
        if rng.random()<0.3 and recs:
            recs.append(mutate(rng,recs[0],k))  # duplicated content -> ambiguity
        if not recs: recs=[rseq(rng,2*k)]
        rng.shuffle(recs)
        samples.append(recs)
    return samples
def expected_map(ref,table,names,k,rcmode,ambig_mask,repeat_mask):
    h=(k-1)//2
    n=len(names)
    total=sum(len(c) for c in ref)
    out=[['-']*total for _ in range(n)]
    # count ref kmers
    cnt={}
    wins=[]
    off=0
    for ci,c in enumerate(ref):
        cu=c.upper()
        for i,w in windows(cu,k):
            sk=w[:h]+w[h+1:]; flip=False
            if rcmode:
                r=rc(w); rsk=r[:h]+r[h+1:]
                if key(sk)>key(rsk): sk=rsk; flip=True
            cnt[sk]=cnt.get(sk,0)+1
            wins.append((ci,off,i+h,sk,flip))
        off+=len(c)
    offs=[]; o=0
    for c in ref: offs.append(o); o+=len(c)
    # flanks first, then middle
    for (ci,off,p,sk,flip) in wins:
        if sk in table:
            for s in range(n):
                b=table[sk][s]
                if b!='-':
                    cu=ref[ci].upper()
                    for q in range(p-h,p+h+1):
                        out[s][off+q]=cu[q]
    for (ci,off,p,sk,flip) in wins:
        if sk in table:
            for s in range(n):
                b=table[sk][s]
                if b!='-':
                    if flip: b=RCI[b]
                    if ambig_mask and b not in 'ACGTU-': b='N'
                    out[s][off+p]=b
    if repeat_mask:
        for (ci,off,p,sk,flip) in wins:
            if cnt[sk]>1:
                for s in range(n):
                    for q in range(p-h,p+h+1):
                        if out[s][off+q]!='-': out[s][off+q]='N'
    return [''.join(x) for x in out]
def parse_fasta(txt):
    names=[];seqs=[]
    for l in txt.split('\n'):
        if l.startswith('>'): names.append(l[1:]); seqs.append('')
        elif l.strip(): seqs[-1]+=l.strip()
    return names,seqs
def run(seed,n):
    rng=random.Random(seed); bad=0; ran=0
    d=f'/tmp/exp/p/m{seed}'; os.makedirs(d,exist_ok=True)
    for it in range(n):
        k=rng.choice([5,7,9,11,15,21,31,33,41,63]) if rng.random()<0.7 else rng.choice(range(5,64,2))
        rcmode=rng.random()<0.7
        ref=gen_ref(rng,k)
        samples=gen_samples(rng,ref,k)
        with open(d+'/ref.fa','w') as f:
            for i,c in enumerate(ref): f.write(f'>c{i} desc\n{c}\n')
        fns=[]
        for i,recs in enumerate(samples):
            fn=f'{d}/s{i}.fa'; fns.append(fn)
            with open(fn,'w') as f:
                for j,r in enumerate(recs): f.write(f'>x{j}\n{r}\n')
        p=subprocess.run([SKA,'build','-k',str(k),'-o',d+'/o']+fns+([] if rcmode else ['--single-strand']),capture_output=True,text=True)
        if p.returncode!=0: continue
        q=subprocess.run([SKA,'nk','--full-info',d+'/o.skf'],capture_output=True,text=True)
        hdr,table=parse_nk(q.stdout,k)
        names=[f's{i}' for i in range(len(samples))]
        am=rng.random()<0.4; rm=rng.random()<0.5
        flags=(['--ambig-mask'] if am else [])+(['--repeat-mask'] if rm else [])
        m=subprocess.run([SKA,'map',d+'/ref.fa',d+'/o.skf']+flags,capture_output=True,text=True)
        exp=expected_map(ref,table,names,k,rcmode,am,rm)
        anymatch=any(ch!='-' for e in exp for ch in e)
        # does ref have any kmers?
        hasref=any(True for c in ref for _ in windows(c,k))
        if m.returncode!=0:
            if anymatch:
                bad+=1; print('MAP FAILED but expected output',k,rcmode,ref,samples,m.stderr[-200:])
            continue
        ran+=1
        gn,gs=parse_fasta(m.stdout)
        if gn!=names or gs!=exp:
            bad+=1
            print('MISMATCH k',k,'rc',rcmode,'am',am,'rm',rm,'ref',ref,'samples',samples)
            for a,b in zip(gs,exp):
                if a!=b: print('  got',a,'\n  exp',b)
            continue
        # VCF
        v=subprocess.run([SKA,'map','-f','vcf',d+'/ref.fa',d+'/o.skf']+flags,capture_output=True,text=True)
        if v.returncode!=0:
            bad+=1; print('VCF FAILED',v.stderr[-300:]); continue
        recs={}
        order=[]
        for l in v.stdout.split('\n'):
            if l.startswith('#CHROM'): vnames=l.split('\t')[9:]
            if not l or l.startswith('#'): continue
            f=l.split('\t')
            recs[(f[0],int(f[1]))]=(f[3],f[4].split(',') if f[4]!='.' else [],f[9:])
            order.append((f[0],int(f[1])))
        if vnames!=names: bad+=1; print('VCF names',vnames)
        off=0; ok=True; expkeys=[]
        for ci,c in enumerate(ref):
            cu=c.upper()
            for p_ in range(len(c)):
                col=[e[off+p_] for e in exp]
                rb=cu[p_]
                keyv=(f'c{ci}',p_+1)
                if any(ch!=rb for ch in col):
                    expkeys.append(keyv)
                    if keyv not in recs: ok=False; print('  missing rec',keyv,col,rb); continue
                    R,A,G=recs[keyv]
                    if R!=(rb if rb in 'ACGT' else 'N'): ok=False; print('  REF wrong',keyv,R,rb)
                    for ch,g in zip(col,G):
                        dec='-' if g=='.' else ([R]+A)[int(g)] if g!='0' else rb
                        want=ch if ch in 'ACGT-' else 'N'
                        if g=='0': dec=rb
                        if dec!=want and not (g=='0' and ch==rb): ok=False; print('  GT wrong',keyv,ch,g,R,A)
                else:
                    if keyv in recs: ok=False; print('  spurious rec',keyv,recs[keyv],col,rb)
            off+=len(c)
        if order!=expkeys: ok=False; print('  order/keys differ')
        if not ok:
            bad+=1; print('VCF MISMATCH k',k,'ref',ref,'samples',samples,flags)
    print('seed',seed,'n',n,'ran',ran,'bad',bad)
run(int(sys.argv[1]),int(sys.argv[2]))
