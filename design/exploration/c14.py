from c06 import *
def exp_dist(rows,ns,names,minfreq):
    thr=math.ceil(minfreq*ns-1e-9)
    R=[b for b in rows.values() if sum(1 for x in b if x!='-')>=thr]
    out=[]
    for i in range(ns):
        for j in range(i+1,ns):
            snp=sum(1 for b in R if b[i]!='-' and b[j]!='-' and b[i]!=b[j])
            one=sum(1 for b in R if (b[i]=='-')!=(b[j]=='-'))
            any_=sum(1 for b in R if b[i]!='-' or b[j]!='-')
            out.append((names[i],names[j],float(snp),(one/any_ if any_ else 0.0)))
    return out
def make_unamb(rng,k,ns,nrows):
    rows={}
    while len(rows)<nrows:
        arms=rseq(rng,k-1)
        if key(arms)>=key(rc(arms)) or arms in rows: continue
        st=rng.randrange(4)
        bases=[]
        for s in range(ns):
            if st==0: b=rng.choice('ACGT')
            elif st==1: b='A'
            elif st==2: b=rng.choice(['A','-','-'])
            else: b=rng.choice('AAAC-')
            bases.append(b)
        if all(b=='-' for b in bases): continue
        rows[arms]=bases
    return rows
def run14(seed,n):
    rng=random.Random(seed); bad=0
    d=f'/tmp/exp/p/d{seed}'; shutil.rmtree(d,ignore_errors=True); os.makedirs(d)
    for it in range(n):
        k=rng.choice([5,9,15,31,33,63]); ns=rng.randint(2,12)
        rows=make_unamb(rng,k,ns,rng.randint(1,60))
        fns=write_samples(d,rows,k,ns)
        if not fns: continue
        p=sh(SKA,'build','-k',str(k),'-o',d+'/t',*fns); assert p.returncode==0
        for rep in range(4):
            j=rng.randint(0,ns); mf=rng.choice([0.0,0.0,1.0,0.5,0.25,0.75])
            aa=rng.random()<0.5; thr=rng.choice([1,2,4])
            a=sh(SKA,'distance',d+'/t.skf','--min-freq',repr(mf),'--threads',str(thr),*(['--allow-ambiguous'] if aa else []))
            if a.returncode!=0: bad+=1; print('DIST FAIL',a.stderr[-300:]); continue
            lines=a.stdout.strip().split('\n')[1:]
            got=[(x.split('\t')[0],x.split('\t')[1],float(x.split('\t')[2]),float(x.split('\t')[3])) for x in lines]
            exp=exp_dist(rows,ns,[f's{i}' for i in range(ns)],mf)
            ok=len(got)==len(exp) and all(g[0]==e[0] and g[1]==e[1] and abs(g[2]-e[2])<0.006 and abs(g[3]-e[3])<1.1e-5 for g,e in zip(got,exp))
            if not ok:
                bad+=1; print('MISMATCH',k,ns,mf,aa,[ (g,e) for g,e in zip(got,exp) if abs(g[2]-e[2])>=0.006 or abs(g[3]-e[3])>=1.1e-5][:2])
    print('seed',seed,'n',n,'bad',bad)
if __name__=='__main__': run14(int(sys.argv[1]),int(sys.argv[2]))
