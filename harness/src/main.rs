//! Harness: exercises library entry points of the tree under test and prints plain text for the
//! Python oracles.  It contains no oracle for the behavioural properties; for the complete
//! enumerations of C16 only, it carries a second, string-based implementation of packing and
//! reverse complement written from the specification (`reference` module).
use std::borrow::Cow;
use std::io::{BufRead, Write};

use hashbrown::HashMap;

use ska::cli::FilterType;
use ska::coverage::CoverageHistogram;
use ska::generic_modes::apply_filters;
use ska::merge_ska_array::MergeSkaArray;
use ska::merge_ska_dict::{build_and_merge, InputFastx, MergeSkaDict};
use ska::ska_dict::bit_encoding::{
    base_to_prob, decode_base, decode_kmer, encode_base, is_ambiguous, rc_base, valid_base, UInt,
    IUPAC, RC_IUPAC,
};
use ska::ska_dict::nthash::NtHashIterator;
use ska::ska_dict::split_kmer::SplitKmer;
use ska::ska_ref::RefSka;
use ska::{QualFilter, QualOpts};

mod reference {
    //! String-level reference for C16 (A=0, C=1, T=2, G=3; first base most significant).
    pub fn code(c: u8) -> u128 {
        match c {
            b'A' | b'a' => 0,
            b'C' | b'c' => 1,
            b'T' | b't' => 2,
            b'G' | b'g' => 3,
            _ => panic!("not a base"),
        }
    }
    pub fn pack(s: &[u8]) -> u128 {
        let mut v: u128 = 0;
        for c in s {
            v = v * 4 + code(*c);
        }
        v
    }
    pub fn comp(c: u8) -> u8 {
        match c {
            b'A' => b'T',
            b'C' => b'G',
            b'G' => b'C',
            b'T' => b'A',
            _ => panic!("not a base"),
        }
    }
    pub fn rc(s: &[u8]) -> Vec<u8> {
        s.iter().rev().map(|c| comp(*c)).collect()
    }
    pub fn arms(w: &[u8]) -> Vec<u8> {
        let h = (w.len() - 1) / 2;
        let mut a = w[..h].to_vec();
        a.extend_from_slice(&w[h + 1..]);
        a
    }
}

trait Wide: for<'a> UInt<'a> {
    fn to_u128(self) -> u128;
}
impl Wide for u64 {
    fn to_u128(self) -> u128 {
        self as u128
    }
}
impl Wide for u128 {
    fn to_u128(self) -> u128 {
        self
    }
}

fn usage() -> ! {
    eprintln!("usage: skaharness <tables|bits|roll|skfload|skfdamage|rows|rt|fresh|cov|covfn|covfit> ...");
    std::process::exit(64)
}

fn main() {
    let args: Vec<String> = std::env::args().collect();
    if args.len() < 2 {
        usage();
    }
    match args[1].as_str() {
        "tables" => tables(),
        "bits" => bits(&args[2..]),
        "roll" => roll(&args[2..]),
        "skfload" => skfload(&args[2..]),
        "skfdamage" => skfdamage(&args[2..]),
        "rows" => rows(&args[2..]),
        "rt" => rt(&args[2..]),
        "fresh" => fresh(&args[2..]),
        "multik" => multik(&args[2..]),
        "cov" => cov(&args[2..]),
        "covfn" => covfn(),
        "covfit" => covfit(&args[2..]),
        _ => usage(),
    }
}

// ------------------------------------------------------------------------------------------ C15
fn tables() {
    let out = std::io::stdout();
    let mut o = out.lock();
    for b in 0..4usize {
        for x in 0..256usize {
            writeln!(o, "IUPAC\t{}\t{}\t{}", b, x, IUPAC[b * 256 + x]).unwrap();
        }
    }
    for x in 0..256usize {
        writeln!(o, "RC\t{}\t{}", x, RC_IUPAC[x]).unwrap();
        writeln!(o, "AMBIG\t{}\t{}", x, is_ambiguous(x as u8) as u8).unwrap();
        let p = base_to_prob(x as u8);
        writeln!(o, "PROB\t{}\t{:?}\t{:?}\t{:?}\t{:?}", x, p[0], p[1], p[2], p[3]).unwrap();
        writeln!(o, "ENC\t{}\t{}\t{}", x, encode_base(x as u8), valid_base(x as u8) as u8).unwrap();
    }
    for b in 0..4u8 {
        writeln!(o, "DEC\t{}\t{}", b, decode_base(b)).unwrap();
        writeln!(o, "RCB\t{}\t{}", b, rc_base(b)).unwrap();
    }
    writeln!(o, "LEN\t{}\t{}", IUPAC.len(), RC_IUPAC.len()).unwrap();
}

// ------------------------------------------------------------------------------------------ C16
struct BitsStats {
    checked: u64,
    bad: u64,
    msgs: Vec<String>,
    pal: u64,
    flipped: u64,
}

impl BitsStats {
    fn fail(&mut self, msg: String) {
        self.bad += 1;
        if self.msgs.len() < 8 {
            self.msgs.push(msg);
        }
    }
}

fn check_kmer<IntT: Wide>(w: &[u8], st: &mut BitsStats) {
    let k = w.len();
    let h = (k - 1) / 2;
    let ws = String::from_utf8_lossy(w).to_string();
    let arms = reference::arms(w);
    let rcw = reference::rc(w);
    let rc_arms = reference::arms(&rcw);
    let (lower_mask, upper_mask) = IntT::generate_masks(k);
    st.checked += 1;

    // packing as done when reading sequence (single strand), and unpacking
    let sk = SplitKmer::<IntT>::new(Cow::Borrowed(w), k, None, k, false, 0, QualFilter::NoFilter, false);
    let sk = match sk {
        Some(s) => s,
        None => {
            st.fail(format!("{ws}: no k-mer from a window of k bases"));
            return;
        }
    };
    let (packed, mid, flag) = sk.get_curr_kmer();
    if packed.to_u128() != reference::pack(&arms) {
        st.fail(format!("{ws}: packed arms {:x} expected {:x}", packed.to_u128(), reference::pack(&arms)));
    }
    if decode_base(mid) != w[h].to_ascii_uppercase() || flag {
        st.fail(format!("{ws}: middle {} flag {}", decode_base(mid) as char, flag));
    }
    if sk.get_middle_pos() != h {
        st.fail(format!("{ws}: middle position {}", sk.get_middle_pos()));
    }
    let (up, lo) = decode_kmer(k, packed, upper_mask, lower_mask);
    if format!("{up}{lo}").as_bytes() != arms.as_slice() {
        st.fail(format!("{ws}: decode gives {up} {lo}"));
    }
    // encode_kmer / skalo_decode_kmer on k-1 and k bases
    let e_arms = IntT::encode_kmer(&arms);
    if e_arms.to_u128() != reference::pack(&arms) {
        st.fail(format!("{ws}: encode_kmer(arms) {:x}", e_arms.to_u128()));
    }
    if IntT::skalo_decode_kmer(e_arms, k - 1).as_bytes() != arms.as_slice() {
        st.fail(format!("{ws}: skalo_decode_kmer(k-1) {}", IntT::skalo_decode_kmer(e_arms, k - 1)));
    }
    if 2 * k <= IntT::n_bits() as usize {
        let e_full = IntT::encode_kmer(w);
        if IntT::skalo_decode_kmer(e_full, k).as_bytes() != w {
            st.fail(format!("{ws}: skalo_decode_kmer(k) {}", IntT::skalo_decode_kmer(e_full, k)));
        }
        let r = e_full.rev_comp(k);
        if r.to_u128() != reference::pack(&rcw) || r.rev_comp(k) != e_full {
            st.fail(format!("{ws}: rev_comp(k) {:x} expected {:x}", r.to_u128(), reference::pack(&rcw)));
        }
    }
    // packed reverse complement of the arms, involution
    let r = packed.rev_comp(k - 1);
    if r.to_u128() != reference::pack(&rc_arms) {
        st.fail(format!("{ws}: rev_comp(arms) {:x} expected {:x}", r.to_u128(), reference::pack(&rc_arms)));
    }
    if r.rev_comp(k - 1) != packed {
        st.fail(format!("{ws}: rev_comp not an involution"));
    }
    // canonical choice with both strands
    let mut sk2 = SplitKmer::<IntT>::new(Cow::Borrowed(w), k, None, k, true, 0, QualFilter::NoFilter, false).unwrap();
    let (c_packed, c_mid, c_flag) = sk2.get_curr_kmer();
    let f = reference::pack(&arms);
    let rv = reference::pack(&rc_arms);
    let (e_packed, e_mid, e_flag) = if f > rv { (rv, rcw[h], true) } else { (f, w[h], false) };
    if c_packed.to_u128() != e_packed || decode_base(c_mid) != e_mid || c_flag != e_flag {
        st.fail(format!(
            "{ws}: canonical ({:x},{},{}) expected ({:x},{},{})",
            c_packed.to_u128(), decode_base(c_mid) as char, c_flag, e_packed, e_mid as char, e_flag
        ));
    }
    if sk2.self_palindrome() != (f == rv) {
        st.fail(format!("{ws}: self_palindrome {}", sk2.self_palindrome()));
    }
    if f == rv {
        st.pal += 1;
    }
    if e_flag {
        st.flipped += 1;
    }
    // strand-symmetric hash
    let h1 = NtHashIterator::new(w, k, true).curr_hash();
    let h2 = NtHashIterator::new(&rcw, k, true).curr_hash();
    if h1 != h2 {
        st.fail(format!("{ws}: hash {h1:x} but reverse complement {h2:x}"));
    }
}

fn kmer_from_index(mut idx: u128, k: usize) -> Vec<u8> {
    let letters = [b'A', b'C', b'T', b'G'];
    let mut w = vec![b'A'; k];
    for i in (0..k).rev() {
        w[i] = letters[(idx & 3) as usize];
        idx >>= 2;
    }
    w
}

struct Lcg(u64);
impl Lcg {
    fn next(&mut self) -> u64 {
        self.0 = self.0.wrapping_mul(6364136223846793005).wrapping_add(1442695040888963407);
        let mut x = self.0;
        x ^= x >> 33;
        x = x.wrapping_mul(0xff51afd7ed558ccd);
        x ^= x >> 33;
        x
    }
}

fn bits_run<IntT: Wide>(k: usize, mode: &str, n: u64, seed: u64) -> BitsStats {
    let mut st = BitsStats { checked: 0, bad: 0, msgs: Vec::new(), pal: 0, flipped: 0 };
    match mode {
        "enum" => {
            let total: u128 = 1u128 << (2 * k);
            // optional sharding: n = shard count, seed = shard index (n = 0: everything)
            let (shards, shard) = if n == 0 { (1u128, 0u128) } else { (n as u128, seed as u128) };
            let mut i = shard;
            while i < total {
                check_kmer::<IntT>(&kmer_from_index(i, k), &mut st);
                i += shards;
            }
        }
        "structured" => {
            let letters = [b'A', b'C', b'T', b'G'];
            for l in letters {
                check_kmer::<IntT>(&vec![l; k], &mut st);
            }
            for pos in 0..k {
                for bg in letters {
                    for l in letters {
                        let mut w = vec![bg; k];
                        w[pos] = l;
                        check_kmer::<IntT>(&w, &mut st);
                    }
                }
            }
            for a in letters {
                for b in letters {
                    let w: Vec<u8> = (0..k).map(|i| if i % 2 == 0 { a } else { b }).collect();
                    check_kmer::<IntT>(&w, &mut st);
                }
            }
            // self-complementary arms with every middle base
            let mut rng = Lcg(seed ^ 0x9e3779b97f4a7c15);
            let h = (k - 1) / 2;
            for _ in 0..16 {
                let arm: Vec<u8> = (0..h).map(|_| letters[(rng.next() & 3) as usize]).collect();
                for m in letters {
                    let mut w = arm.clone();
                    w.push(m);
                    w.extend(reference::rc(&arm));
                    check_kmer::<IntT>(&w, &mut st);
                }
            }
        }
        "random" => {
            let letters = [b'A', b'C', b'T', b'G'];
            let mut rng = Lcg(seed);
            for _ in 0..n {
                let w: Vec<u8> = (0..k).map(|_| letters[(rng.next() & 3) as usize]).collect();
                check_kmer::<IntT>(&w, &mut st);
            }
        }
        _ => usage(),
    }
    st
}

/// bits <k> <64|128> <enum|structured|random> [n] [seed]
fn bits(a: &[String]) {
    let k: usize = a[0].parse().unwrap();
    let width: u32 = a[1].parse().unwrap();
    let mode = a[2].as_str();
    let n: u64 = a.get(3).map(|s| s.parse().unwrap()).unwrap_or(0);
    let seed: u64 = a.get(4).map(|s| s.parse().unwrap()).unwrap_or(1);
    let st = if width == 64 { bits_run::<u64>(k, mode, n, seed) } else { bits_run::<u128>(k, mode, n, seed) };
    println!("BITS\tk={k}\twidth={width}\tmode={mode}\tchecked={}\tbad={}\tpalindromes={}\tflipped={}", st.checked, st.bad, st.pal, st.flipped);
    for m in st.msgs {
        println!("BAD\t{m}");
    }
}

fn parse_qf(s: &str) -> QualFilter {
    match s {
        "none" => QualFilter::NoFilter,
        "middle" => QualFilter::Middle,
        "strict" => QualFilter::Strict,
        _ => usage(),
    }
}

fn roll_one<IntT: Wide>(case: usize, k: usize, rc: bool, reads: bool, min_qual: u8, qf: QualFilter, seq: &[u8], qual: Option<&[u8]>) {
    let (lower_mask, upper_mask) = IntT::generate_masks(k);
    let it = SplitKmer::<IntT>::new(Cow::Borrowed(seq), seq.len(), qual, k, rc, min_qual, qf, reads);
    let mut n = 0usize;
    let mut scratch_bad = 0usize;
    if let Some(mut it) = it {
        let mut cur = Some(it.get_curr_kmer());
        while let Some((kmer, mid, flag)) = cur {
            let pos = it.get_middle_pos();
            let (up, lo) = decode_kmer(k, kmer, upper_mask, lower_mask);
            let hash = if reads { format!("{}", it.get_hash()) } else { "-".to_string() };
            println!(
                "W\t{case}\t{pos}\t{up}{lo}\t{}\t{}\t{hash}\t{}\t{}",
                decode_base(mid) as char, flag as u8, it.self_palindrome() as u8, it.middle_base_qual() as u8
            );
            // from scratch on this window alone
            let h = (k - 1) / 2;
            let win = &seq[pos - h..pos + h + 1];
            let wq = qual.map(|q| &q[pos - h..pos + h + 1]);
            match SplitKmer::<IntT>::new(Cow::Borrowed(win), k, wq, k, rc, min_qual, qf, reads) {
                Some(s2) => {
                    let same = s2.get_curr_kmer() == (kmer, mid, flag) && (!reads || s2.get_hash() == it.get_hash()) && s2.get_middle_pos() == h;
                    if !same {
                        scratch_bad += 1;
                        println!("SCRATCHDIFF\t{case}\t{pos}\t{:?}\t{:?}", s2.get_curr_kmer(), (kmer, mid, flag));
                    }
                    if reads {
                        let fresh = NtHashIterator::new(win, k, rc).curr_hash();
                        if fresh != it.get_hash() {
                            scratch_bad += 1;
                            println!("HASHDIFF\t{case}\t{pos}\t{fresh}\t{}", it.get_hash());
                        }
                    }
                }
                None => {
                    scratch_bad += 1;
                    println!("SCRATCHDIFF\t{case}\t{pos}\tnone");
                }
            }
            n += 1;
            cur = it.get_next_kmer();
        }
    }
    println!("E\t{case}\t{n}\t{scratch_bad}");
}

/// roll <file>: lines `k width rc reads minqual qualfilter seq [qual]`
fn roll(a: &[String]) {
    let f = std::io::BufReader::new(std::fs::File::open(&a[0]).unwrap());
    for (case, line) in f.lines().enumerate() {
        let line = line.unwrap();
        let p: Vec<&str> = line.split_whitespace().collect();
        if p.len() < 7 {
            continue;
        }
        let k: usize = p[0].parse().unwrap();
        let width: u32 = p[1].parse().unwrap();
        let rc = p[2] == "1";
        let reads = p[3] == "1";
        let min_qual: u8 = p[4].parse().unwrap();
        let qf = parse_qf(p[5]);
        let seq = p[6].as_bytes();
        let qual = p.get(7).map(|q| q.as_bytes());
        if width == 64 {
            roll_one::<u64>(case, k, rc, reads, min_qual, qf, seq, qual);
        } else {
            roll_one::<u128>(case, k, rc, reads, min_qual, qf, seq, qual);
        }
    }
}

// ------------------------------------------------------------------------------------------ C19
fn content<IntT: Wide>(a: &MergeSkaArray<IntT>) -> String {
    // the read-out (k, strand mode, names, rows) plus a re-serialisation of the whole object, so that fields the read-out
    // does not show (the stored per-row counts) are part of what "decodes to the original" means
    let mut cbor: Vec<u8> = Vec::new();
    ciborium::ser::into_writer(a, &mut cbor).expect("re-serialisation failed");
    let mut h: u64 = 0xcbf29ce484222325;
    for b in &cbor {
        h = (h ^ (*b as u64)).wrapping_mul(0x100000001b3);
    }
    format!("{a}{a:?}cbor_len={}\ncbor_fnv={h:016x}\n", cbor.len())
}

/// Load as the command line does: 64 bits first, then 128.
fn load_like_cli(path: &str) -> Result<(u32, String), String> {
    match MergeSkaArray::<u64>::load(path) {
        Ok(a) => Ok((64, content(&a))),
        Err(e1) => match MergeSkaArray::<u128>::load(path) {
            Ok(a) => Ok((128, content(&a))),
            Err(e2) => Err(format!("{e1} / {e2}")),
        },
    }
}

fn strip_meta(s: &str) -> String {
    // content = k, rc, names, rows; the version string and the width are container metadata
    let mut lines: Vec<&str> = s.lines().filter(|l| !l.starts_with("ska_version=") && !l.starts_with("k_bits=")).collect();
    lines.sort_unstable();
    lines.join("\n")
}

fn skfload(a: &[String]) {
    match load_like_cli(&a[0]) {
        Ok((w, c)) => {
            println!("WIDTH\t{w}");
            print!("{c}");
        }
        Err(e) => {
            println!("REJECT\t{}", e.replace('\n', " "));
            std::process::exit(3);
        }
    }
}

/// rows <file>: every stored field of the object, decoded generically from its serialisation, rows sorted by k-mer:
/// `ROW <split k-mer integer> <bases> <stored count>`; what `nk` does not show (the per-row counts, the lengths of the
/// three parallel containers) is visible here.
fn rows_of<IntT: Wide>(a: &MergeSkaArray<IntT>) {
    use ciborium::Value;
    let mut cbor: Vec<u8> = Vec::new();
    ciborium::ser::into_writer(a, &mut cbor).expect("re-serialisation failed");
    let v: Value = ciborium::de::from_reader(&cbor[..]).expect("generic decode failed");
    let m = v.as_map().expect("not a map");
    let get = |name: &str| -> &Value {
        &m.iter().find(|(k, _)| k.as_text() == Some(name)).unwrap_or_else(|| panic!("field {name} missing")).1
    };
    let int = |x: &Value| -> u128 {
        match x {
            Value::Integer(i) => u128::try_from(i128::from(*i)).unwrap(),
            Value::Tag(_, b) => match &**b {
                Value::Bytes(bs) => bs.iter().fold(0u128, |acc, b| (acc << 8) | (*b as u128)),
                _ => panic!("unexpected tagged value"),
            },
            Value::Bytes(bs) => bs.iter().fold(0u128, |acc, b| (acc << 8) | (*b as u128)),
            _ => panic!("not an integer: {x:?}"),
        }
    };
    let k = int(get("k"));
    let names: Vec<String> = get("names").as_array().unwrap().iter().map(|x| x.as_text().unwrap().to_string()).collect();
    let kmers: Vec<u128> = get("split_kmers").as_array().unwrap().iter().map(int).collect();
    let counts: Vec<u128> = get("variant_count").as_array().unwrap().iter().map(int).collect();
    let var = get("variants").as_map().unwrap();
    let vget = |name: &str| -> &Value { &var.iter().find(|(k, _)| k.as_text() == Some(name)).unwrap().1 };
    let dim: Vec<u128> = vget("dim").as_array().unwrap().iter().map(int).collect();
    let data: Vec<u8> = match vget("data") {
        Value::Array(xs) => xs.iter().map(|x| int(x) as u8).collect(),
        Value::Bytes(bs) => bs.clone(),
        other => panic!("unexpected data {other:?}"),
    };
    println!("k\t{k}");
    println!("rc\t{}", get("rc").as_bool().unwrap());
    println!("k_bits\t{}", int(get("k_bits")));
    println!("names\t{}", names.join(","));
    println!("lengths\tsplit_kmers={} variant_count={} dim={}x{} data={}", kmers.len(), counts.len(), dim[0], dim[1], data.len());
    let nc = dim[1] as usize;
    if kmers.len() != counts.len() || kmers.len() != dim[0] as usize || data.len() != kmers.len() * nc || nc != names.len() {
        println!("INCONSISTENT");
        return;
    }
    let mut out: Vec<(u128, String, u128)> = (0..kmers.len())
        .map(|i| (kmers[i], String::from_utf8_lossy(&data[i * nc..(i + 1) * nc]).to_string(), counts[i]))
        .collect();
    out.sort();
    for (km, b, c) in out {
        println!("ROW\t{km}\t{b}\t{c}");
    }
}

fn rows(a: &[String]) {
    match MergeSkaArray::<u64>::load(&a[0]) {
        Ok(arr) => rows_of(&arr),
        Err(e1) => match MergeSkaArray::<u128>::load(&a[0]) {
            Ok(arr) => rows_of(&arr),
            Err(e2) => {
                println!("REJECT\t{e1} / {e2}");
                std::process::exit(3);
            }
        },
    }
}

/// skfdamage <file> <trunc|flip> <start> <end> <scratch>
fn skfdamage(a: &[String]) {
    let data = std::fs::read(&a[0]).unwrap();
    let mode = a[1].as_str();
    // either a range `<start> <end>` or `list <file with one index per line>`
    let (indices, start, end): (Vec<usize>, usize, usize) = if a[2] == "list" {
        let v: Vec<usize> = std::fs::read_to_string(&a[3]).unwrap().lines().filter(|l| !l.is_empty()).map(|l| l.parse().unwrap()).collect();
        let n = v.len();
        (v, 0, n)
    } else {
        let s: usize = a[2].parse().unwrap();
        let e: usize = a[3].parse().unwrap();
        ((s..e).collect(), s, e)
    };
    let scratch = &a[4];
    let original = strip_meta(&load_like_cli(&a[0]).expect("original must load").1);
    let (mut rejected, mut same, mut diff) = (0u64, 0u64, 0u64);
    for i in indices {
        let damaged: Vec<u8> = match mode {
            "trunc" => data[..i].to_vec(),
            "flip" => {
                let mut d = data.clone();
                d[i / 8] ^= 1 << (i % 8);
                d
            }
            _ => usage(),
        };
        std::fs::write(scratch, &damaged).unwrap();
        match load_like_cli(scratch) {
            Err(_) => rejected += 1,
            Ok((w, c)) => {
                if strip_meta(&c) == original {
                    same += 1;
                    println!("SAME\t{mode}\t{i}\t{w}");
                } else {
                    diff += 1;
                    println!("DIFF\t{mode}\t{i}\t{w}");
                }
            }
        }
    }
    println!("DONE\t{mode}\t{start}\t{end}\t{rejected}\t{same}\t{diff}");
}

// ------------------------------------------------------------------------------------------ C09 / C10
fn parse_filter(s: &str) -> FilterType {
    match s {
        "no-filter" => FilterType::NoFilter,
        "no-const" => FilterType::NoConst,
        "no-ambig" => FilterType::NoAmbig,
        "no-ambig-or-const" => FilterType::NoAmbigOrConst,
        _ => usage(),
    }
}

fn rt_op<IntT: Wide>(mut arr: MergeSkaArray<IntT>, op: &[String]) {
    let out = std::io::stdout();
    let mut o = out.lock();
    match op[0].as_str() {
        "nk" => {
            write!(o, "{arr}\n{arr:?}").unwrap();
        }
        "align" => {
            let filter = parse_filter(&op[1]);
            let min_freq: f64 = op[2].parse().unwrap();
            apply_filters(&mut arr, min_freq, op[3] == "1", &filter, op[4] == "1", op[5] == "1");
            arr.write_fasta(&mut o).unwrap();
        }
        "dist" | "dist2" => {
            let min_freq: f64 = op[1].parse().unwrap();
            if op[0] == "dist2" {
                // a first call on the unfiltered array, as a library user comparing settings would make it; its result is not used
                let first = arr.distance(0.0);
                assert!(first.len() == arr.nsamples());
            }
            let constant = apply_filters(&mut arr, min_freq, false, &FilterType::NoConst, false, false);
            let d = arr.distance(constant as f64);
            for (i, row) in d.iter().enumerate() {
                for (j, (dist, mm)) in row.iter().enumerate() {
                    writeln!(o, "{}\t{}\t{dist:.2}\t{mm:.5}", arr.names()[i], arr.names()[i + 1 + j]).unwrap();
                }
            }
        }
        "map" => {
            let mut r = RefSka::<IntT>::new(arr.kmer_len(), &op[1], arr.rc(), op[2] == "1", op[3] == "1");
            r.map(&arr.to_dict());
            if op[4] == "vcf" {
                r.write_vcf(&mut o, 1).unwrap();
            } else {
                r.write_aln(&mut o, 1).unwrap();
            }
        }
        "weed" => {
            let w = RefSka::<IntT>::new(arr.kmer_len(), &op[1], arr.rc(), false, false);
            arr.weed(&w, op[2] == "1");
            write!(o, "{arr}\n{arr:?}").unwrap();
        }
        "delete" => {
            let names: Vec<&str> = op[1..].iter().map(|s| s.as_str()).collect();
            arr.delete_samples(&names);
            write!(o, "{arr}\n{arr:?}").unwrap();
        }
        _ => usage(),
    }
}

/// rt <mem|disk> <k> <rc> <scratch.skf> <op...> -- <fasta files>
fn rt(a: &[String]) {
    let route = a[0].as_str();
    let k: usize = a[1].parse().unwrap();
    let rc = a[2] == "1";
    let scratch = &a[3];
    let sep = a.iter().position(|s| s == "--").unwrap();
    let op = &a[4..sep];
    let files: Vec<InputFastx> = a[sep + 1..]
        .iter()
        .enumerate()
        .map(|(i, f)| (format!("s{i}"), f.clone(), None))
        .collect();
    let q = QualOpts { min_count: 1, min_qual: 0, qual_filter: QualFilter::NoFilter };
    if k <= 31 {
        let arr = MergeSkaArray::new(&build_and_merge::<u64>(&files, k, rc, &q, 1, None));
        if route == "mem" {
            return rt_op(arr, op);
        }
        arr.save(scratch).unwrap();
    } else {
        let arr = MergeSkaArray::new(&build_and_merge::<u128>(&files, k, rc, &q, 1, None));
        if route == "mem" {
            return rt_op(arr, op);
        }
        arr.save(scratch).unwrap();
    }
    // reload exactly as the command line does
    if let Ok(arr) = MergeSkaArray::<u64>::load(scratch) {
        println!("#loaded-as\t64");
        rt_op(arr, op)
    } else if let Ok(arr) = MergeSkaArray::<u128>::load(scratch) {
        println!("#loaded-as\t128");
        rt_op(arr, op)
    } else {
        println!("REJECT");
        std::process::exit(3);
    }
}

/// multik <listfile>: lines `k rc fasta`; every build runs in this one process, in the given order, and its read-out is
/// printed after a line `== <n>` (a cache that survives from one k to the next would show in the later ones)
fn multik(a: &[String]) {
    let txt = std::fs::read_to_string(&a[0]).unwrap();
    let q = QualOpts { min_count: 1, min_qual: 0, qual_filter: QualFilter::NoFilter };
    for (n, line) in txt.lines().filter(|l| !l.is_empty()).enumerate() {
        let p: Vec<&str> = line.split_whitespace().collect();
        let k: usize = p[0].parse().unwrap();
        let rc = p[1] == "1";
        // optional: second (read) file, min_count, min_qual, quality rule -> a read build with its own options
        let (files, q): (Vec<InputFastx>, QualOpts) = if p.len() >= 7 {
            (
                vec![("s0".to_string(), p[2].to_string(), Some(p[3].to_string()))],
                QualOpts { min_count: p[4].parse().unwrap(), min_qual: p[5].parse().unwrap(), qual_filter: parse_qf(p[6]) },
            )
        } else {
            (vec![("s0".to_string(), p[2].to_string(), None)], QualOpts { min_count: q.min_count, min_qual: q.min_qual, qual_filter: QualFilter::NoFilter })
        };
        println!("== {n}");
        if k <= 31 {
            let arr = MergeSkaArray::new(&build_and_merge::<u64>(&files, k, rc, &q, 1, None));
            print!("{arr}\n{arr:?}");
        } else {
            let arr = MergeSkaArray::new(&build_and_merge::<u128>(&files, k, rc, &q, 1, None));
            print!("{arr}\n{arr:?}");
        }
    }
}

fn fresh_w<IntT: Wide>(out: &str, k: usize, rc: bool, names: Vec<String>, rows: Vec<(String, String)>) {
    let mut names = names;
    let ns = names.len();
    let mut map: HashMap<IntT, Vec<u8>> = HashMap::new();
    for (arms, bases) in rows {
        map.insert(IntT::encode_kmer(arms.as_bytes()), bases.into_bytes());
    }
    let mut dict = MergeSkaDict::<IntT>::new(k, ns, rc);
    dict.build_from_array(&mut names, &mut map);
    MergeSkaArray::new(&dict).save(out).unwrap();
}

/// fresh <out.skf> <k> <rc> <tablefile>: first line names (tab separated), then arms<TAB>bases
fn fresh(a: &[String]) {
    let k: usize = a[1].parse().unwrap();
    let rc = a[2] == "1";
    let txt = std::fs::read_to_string(&a[3]).unwrap();
    let mut lines = txt.lines();
    let names: Vec<String> = lines.next().unwrap().split('\t').map(|s| s.to_string()).collect();
    let rows: Vec<(String, String)> = lines
        .filter(|l| !l.is_empty())
        .map(|l| {
            let (x, y) = l.split_once('\t').unwrap();
            (x.to_string(), y.to_string())
        })
        .collect();
    if k <= 31 {
        fresh_w::<u64>(&a[0], k, rc, names, rows);
    } else {
        fresh_w::<u128>(&a[0], k, rc, names, rows);
    }
}

// ------------------------------------------------------------------------------------------ C20
fn cov_w<IntT: Wide>(f1: &String, f2: &String, k: usize, rc: bool) {
    let mut cov = CoverageHistogram::<IntT>::new(f1, f2, k, rc, false);
    let mut hist: HashMap<u32, u64> = HashMap::new();
    for (_kmer, c) in cov.verif_kmer_counts() {
        *hist.entry(c).or_insert(0) += 1;
    }
    let mut keys: Vec<u32> = hist.keys().copied().collect();
    keys.sort_unstable();
    for c in keys {
        println!("H\t{c}\t{}", hist[&c]);
    }
    match cov.fit_histogram() {
        Ok(cut) => println!("FIT\tok\t{cut}"),
        Err(e) => println!("FIT\terr\t{}", e.to_string().replace('\n', " ")),
    }
    let (w0, c, cutoff, counts, fitted) = cov.verif_state();
    println!("S\t{w0:?}\t{c:?}\t{cutoff}\t{}", fitted as u8);
    println!("C\t{}", counts.iter().map(|x| x.to_string()).collect::<Vec<_>>().join("\t"));
    if fitted {
        println!("TABLE");
        cov.plot_hist();
    }
}

/// cov <fq1> <fq2> <k> <rc>
fn cov(a: &[String]) {
    let k: usize = a[2].parse().unwrap();
    let rc = a[3] == "1";
    if k <= 31 {
        cov_w::<u64>(&a[0], &a[1], k, rc);
    } else {
        cov_w::<u128>(&a[0], &a[1], k, rc);
    }
}

/// covfit <k> <counts...>: fit a given histogram through the real fit_histogram
fn covfit(a: &[String]) {
    let k: usize = a[0].parse().unwrap();
    let counts: Vec<u32> = a[1..].iter().map(|s| s.parse().unwrap()).collect();
    let mut cov = CoverageHistogram::<u64>::verif_from_counts(k, true, counts);
    match cov.fit_histogram() {
        Ok(cut) => println!("FIT\tok\t{cut}"),
        Err(e) => println!("FIT\terr\t{}", e.to_string().replace('\n', " ")),
    }
    let (w0, c, cutoff, counts, fitted) = cov.verif_state();
    println!("S\t{w0:?}\t{c:?}\t{cutoff}\t{}", fitted as u8);
    println!("C\t{}", counts.iter().map(|x| x.to_string()).collect::<Vec<_>>().join("\t"));
    if fitted {
        println!("TABLE");
        cov.plot_hist();
    }
}

/// covfn: stdin lines `LL w0 c counts...` | `GRAD w0 c counts...` | `CUT w0 c max`
fn covfn() {
    let stdin = std::io::stdin();
    for line in stdin.lock().lines() {
        let line = line.unwrap();
        let p: Vec<&str> = line.split_whitespace().collect();
        if p.is_empty() {
            continue;
        }
        let w0: f64 = p[1].parse().unwrap();
        let c: f64 = p[2].parse().unwrap();
        match p[0] {
            "LL" => {
                let counts: Vec<f64> = p[3..].iter().map(|s| s.parse().unwrap()).collect();
                println!("LL\t{:?}", ska::coverage::verif::log_likelihood(&[w0, c], &counts));
            }
            "GRAD" => {
                let counts: Vec<f64> = p[3..].iter().map(|s| s.parse().unwrap()).collect();
                let g = ska::coverage::verif::grad_ll(&[w0, c], &counts);
                println!("GRAD\t{:?}\t{:?}", g[0], g[1]);
            }
            "CUT" => {
                let max: usize = p[3].parse().unwrap();
                println!("CUT\t{}", ska::coverage::verif::find_cutoff(&[w0, c], max));
            }
            _ => usage(),
        }
    }
}
