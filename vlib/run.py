"""Parallel case runner, verdicts, evidence and replay files.  DESIGN.md sections 3.4 and 3.5."""
import hashlib
import importlib
import json
import multiprocessing as mp
import os
import random
import shutil
import signal
import subprocess
import sys
import tempfile
import time
import traceback

from . import build

ROOT = build.ROOT
EVIDENCE = os.path.join(ROOT, 'evidence')
REPLAYS = os.path.join(ROOT, 'replays')
KNOWN = os.path.join(ROOT, 'known_findings.json')
CALL_TIMEOUT = 120          # generous wall-clock watchdog per process call; firing = inconclusive
NPROC = int(os.environ.get('VERIF_JOBS', '16'))


def scratch_root():
    for base in ('/dev/shm', os.path.join(ROOT, '.work')):
        try:
            p = os.path.join(base, 'skaverif-%d' % os.getuid())
            os.makedirs(p, exist_ok=True)
            return p
        except OSError:
            continue
    raise RuntimeError('no scratch directory')


class Inconclusive(Exception):
    pass


OTHER_FS_TMP = '/var/tmp/skaverif-tmp-%d' % os.getuid()
os.makedirs(OTHER_FS_TMP, exist_ok=True)


class Ctx:
    """What a case needs: binaries, a private scratch directory and process helpers."""

    def __init__(self, bins, workdir):
        self.bins = bins
        self.dir = workdir
        self.calls = 0

    @property
    def ska(self):
        return self.bins['rel']

    def sh(self, *args, stdin=None, env=None, timeout=CALL_TIMEOUT, text=True, cwd=None, mem_gb=None):
        self.calls += 1
        pre = None
        if mem_gb:
            def pre():
                import resource
                lim = int(mem_gb * (1 << 30))
                resource.setrlimit(resource.RLIMIT_AS, (lim, lim))
        e = dict(os.environ)
        e['RUST_BACKTRACE'] = '0'
        # the size of the default thread pool is an accident of the environment: no result may depend on it
        e['RAYON_NUM_THREADS'] = str([1, 2, 3, 5, 8][self.calls % 5])
        # the directory for temporary files lies on another file system than the working directory in every second call
        if self.calls % 2:
            e['TMPDIR'] = OTHER_FS_TMP
        if env:
            e.update(env)
        try:
            return subprocess.run([str(a) for a in args], capture_output=True, text=text, input=stdin,
                                  env=e, timeout=timeout, cwd=cwd or self.dir, preexec_fn=pre)
        except subprocess.TimeoutExpired:
            raise Inconclusive('timeout after %ds: %s' % (timeout, ' '.join(str(a) for a in args)[:200]))

    def path(self, name):
        return os.path.join(self.dir, name)

    def write(self, name, data):
        p = self.path(name)
        mode = 'wb' if isinstance(data, (bytes, bytearray)) else 'w'
        with open(p, mode) as f:
            f.write(data)
        return p

    def clean(self):
        for n in os.listdir(self.dir):
            p = os.path.join(self.dir, n)
            if os.path.isdir(p):
                shutil.rmtree(p, ignore_errors=True)
            else:
                os.remove(p)


def fingerprint(obj):
    return hashlib.sha1(json.dumps(obj, sort_keys=True, default=str).encode()).hexdigest()[:16]


class Result:
    """Outcome of one case (one or more judged executions)."""

    def __init__(self):
        self.status = 'ok'
        self.evals = 0            # executions of the real code that an oracle judged
        self.nontrivial = []      # fingerprints of distinct non-trivial cases
        self.nontrivial_n = 0     # further non-trivial cases that are distinct by construction (enumerations)
        self.counters = {}
        self.sets = {}
        self.sample = None
        self.violations = []      # list of dict(signature, what, detail)
        self.note = None

    def count(self, name, n=1):
        self.counters[name] = self.counters.get(name, 0) + n

    def see(self, name, value):
        self.sets.setdefault(name, set()).add(value)

    def violate(self, signature, what, detail=None):
        self.status = 'violation'
        self.violations.append({'signature': signature, 'what': what, 'detail': detail})

    def to_dict(self):
        d = dict(self.__dict__)
        d['sets'] = {k: sorted(v, key=str) for k, v in self.sets.items()}
        return d


_G = {}


def _init_worker(modname, bins, wroot):
    signal.signal(signal.SIGINT, signal.SIG_IGN)
    _G['mod'] = importlib.import_module(modname)
    _G['bins'] = bins
    # working directories with and without dots, dashes and non-ASCII characters in their names: no result may depend on
    # what the directory part of a path looks like (commas included; white space is left out: it separates the columns of file lists)
    _G['dir'] = tempfile.mkdtemp(prefix='w', suffix=['', '.d', '.v2-\u00e9', '-x.y.z', ',c', '.k,2'][os.getpid() % 6], dir=wroot)


def _run_one(desc):
    mod = _G['mod']
    ctx = Ctx(_G['bins'], _G['dir'])
    t0 = time.time()
    try:
        res = mod.run_case(desc, ctx)
    except Inconclusive as e:
        res = Result()
        res.status = 'inconclusive'
        res.note = str(e)
    except Exception:
        res = Result()
        res.status = 'inconclusive'
        res.note = 'harness error: ' + traceback.format_exc()[-1500:]
    try:
        ctx.clean()
    except OSError:
        pass
    d = res.to_dict()
    d['desc'] = desc
    d['wall'] = time.time() - t0
    return d


def load_known():
    if not os.path.exists(KNOWN):
        return []
    return json.load(open(KNOWN)).get('findings', [])


def write_replay(pid, desc, viol, tier, seed):
    fp = fingerprint([desc, viol['signature']])
    d = os.path.join(REPLAYS, pid, fp)
    os.makedirs(d, exist_ok=True)
    with open(os.path.join(d, 'case.json'), 'w') as f:
        json.dump({'property': pid, 'tier': tier, 'seed': seed, 'desc': desc, 'signature': viol['signature'],
                   'what': viol['what'], 'repo': build.REPO}, f, indent=1, default=str)
    # input files the case depends on are copied next to it, and the description is pointed at the copies
    if isinstance(desc, dict):
        for key, val in list(desc.items()):
            if isinstance(val, str) and val.startswith('/') and os.path.isfile(val) and key.endswith('_file'):
                dst = os.path.join(d, os.path.basename(val))
                if not os.path.exists(dst):
                    shutil.copy(val, dst)
                desc = dict(desc)
                desc[key] = dst
        with open(os.path.join(d, 'case.json'), 'w') as f:
            json.dump({'property': pid, 'tier': tier, 'seed': seed, 'desc': desc, 'signature': viol['signature'],
                       'what': viol['what'], 'repo': build.REPO}, f, indent=1, default=str)
    with open(os.path.join(d, 'detail.txt'), 'w') as f:
        f.write(str(viol['what']) + '\n\n' + (viol['detail'] if isinstance(viol['detail'], str)
                                                 else json.dumps(viol['detail'], indent=1, default=str)))
    return d


def main(modname, argv):
    import argparse
    ap = argparse.ArgumentParser()
    ap.add_argument('--tier', default=os.environ.get('VERIF_TIER', 'quick'), choices=['quick', 'thorough'])
    ap.add_argument('--seed', type=int, default=int(os.environ.get('VERIF_SEED', '1')))
    ap.add_argument('--replay')
    ap.add_argument('--jobs', type=int, default=NPROC)
    ap.add_argument('--budget', type=float, default=None, help='stop issuing new cases after this many seconds')
    ap.add_argument('--scale', type=float, default=float(os.environ.get('VERIF_SCALE', '1')))
    args = ap.parse_args(argv)

    mod = importlib.import_module(modname)
    pid = mod.ID
    t0 = time.time()

    def inconclusive(reason):
        print('INCONCLUSIVE property=%s reason=%s' % (pid, reason))
        sys.exit(2)

    # ---- builds (from the current working tree)
    harness_failed = None
    try:
        bins = {}
        for v in mod.builds(args.tier):
            if v.startswith('harness'):
                try:
                    bins[v] = build.harness(v.split('-', 1)[1] if '-' in v else 'rel')
                except build.BuildError as e:
                    # the program itself builds but the harness does not (a library interface it uses has changed): the cases
                    # that go through the command line are still run and can still report a violation; the cases that need
                    # the harness are inconclusive, and so is the run as a whole if nothing is reported
                    if 'rel' not in bins or args.replay:
                        raise
                    harness_failed = str(e)
                    bins[v] = '/nonexistent/verif-harness-did-not-build'
            else:
                bins[v] = build.ska(v)
    except build.BuildError as e:
        inconclusive('build failed: %s' % e)
    wroot = tempfile.mkdtemp(prefix='%s-' % pid, dir=scratch_root())

    try:
        if args.replay:
            case = json.load(open(os.path.join(args.replay, 'case.json')))
            _init_worker(modname, bins, wroot)
            d = _run_one(case['desc'])
            print(json.dumps({k: d[k] for k in ('status', 'violations', 'note', 'counters')}, indent=1, default=str))
            for v in d['violations']:
                print('VIOLATION property=%s replay=%s' % (pid, args.replay))
            sys.exit(1 if d['violations'] else (2 if d['status'] == 'inconclusive' else 0))

        rng = random.Random(args.seed * 1000003 + 17)
        if hasattr(mod, 'prepare'):
            shared = os.path.join(wroot, 'shared')
            os.makedirs(shared, exist_ok=True)
            try:
                descs = list(mod.prepare(args.tier, args.seed, rng, args.scale, Ctx(bins, shared)))
            except Inconclusive as e:
                inconclusive('preparation failed: %s' % e)
        else:
            descs = list(mod.plan(args.tier, args.seed, rng, args.scale))
        budget = args.budget or mod.BUDGET.get(args.tier)
        t_cases = time.time()          # the case budget does not include build and preparation time

        evals = 0
        nontrivial = set()
        nontrivial_n = 0
        counters = {}
        sets = {}
        samples = []
        viols = []
        inconcl = []
        done = 0
        skipped = 0
        with mp.Pool(args.jobs, initializer=_init_worker, initargs=(modname, bins, wroot)) as pool:
            it = pool.imap_unordered(_run_one, descs, chunksize=getattr(mod, 'CHUNK', 1))
            for d in it:
                done += 1
                evals += d['evals']
                nontrivial.update(d['nontrivial'])
                nontrivial_n += d.get('nontrivial_n', 0)
                for k, v in d['counters'].items():
                    counters[k] = counters.get(k, 0) + v
                for k, v in d['sets'].items():
                    sets.setdefault(k, set()).update(v)
                if d['sample'] is not None and len(samples) < 4:
                    samples.append(d['sample'])
                if d['status'] == 'inconclusive':
                    inconcl.append(d)
                for v in d['violations']:
                    viols.append((d['desc'], v))
                if budget and time.time() - t_cases > budget and done < len(descs):
                    skipped = len(descs) - done
                    pool.terminate()
                    break

        # ---- aggregate checks of the property module (population statistics, required coverage)
        agg_viol, agg_inconcl = [], []
        if hasattr(mod, 'finalize'):
            agg_viol, agg_inconcl = mod.finalize(args.tier, counters, sets)
        required_missing = [c for c in getattr(mod, 'REQUIRED', {}).get(args.tier, []) if not counters.get(c)]
        if required_missing:
            agg_inconcl.append('required observation never made%s: %s' % (' (%d cases not run: time budget)' % skipped if skipped else '',
                                                                        ','.join(required_missing)))
        if harness_failed:
            agg_inconcl.append('the harness did not build, only the command-line cases were judged: %s' % harness_failed[:200])
        if done == 0 or evals == 0:
            agg_inconcl.append('no execution was judged')

        # ---- known findings
        known = [k for k in load_known() if k.get('property') == pid and k.get('status') == 'known']
        new_viol = []
        known_hit = {}
        for desc, v in viols:
            hit = [k for k in known if k['signature'] == v['signature']]
            if hit:
                known_hit.setdefault(hit[0]['signature'], hit[0])
            else:
                new_viol.append((desc, v))
        for sig in agg_viol:
            new_viol.append(({'aggregate': True}, sig))
        for k in known_hit.values():
            print('KNOWN-FINDING: property=%s %s' % (pid, k['what']))

        wall = time.time() - t0
        cov = {
            'evaluations': evals,
            'distinct_nontrivial': len(nontrivial) + nontrivial_n,
            'rule': mod.RULE,
            'samples': samples,
            'cases_planned': len(descs),
            'cases_run': done,
            'cases_not_run_time_budget': skipped,
            'inconclusive_cases': len(inconcl),
            'counters': dict(sorted(counters.items())),
            'observed': {k: sorted(v, key=str)[:64] for k, v in sorted(sets.items())},
            'observed_sizes': {k: len(v) for k, v in sorted(sets.items())},
            'known_findings_matched': sorted(known_hit),
            'repo': build.REPO,
        }
        if hasattr(mod, 'coverage_extra'):
            cov.update(mod.coverage_extra(args.tier, counters, sets))
        ev = {
            'property_id': pid, 'tier': args.tier, 'seed': args.seed, 'level': mod.LEVEL, 'coverage': cov,
            'assumptions': mod.ASSUMPTIONS, 'wall_s': round(wall, 2), 'violations': len(new_viol),
        }
        if build.REPO == '/repo' or os.environ.get('VERIF_WRITE_EVIDENCE'):
            os.makedirs(EVIDENCE, exist_ok=True)
            tmp = os.path.join(EVIDENCE, '.%s.json.tmp' % pid)
            with open(tmp, 'w') as f:
                json.dump(ev, f, indent=1, default=str)
            os.replace(tmp, os.path.join(EVIDENCE, '%s.json' % pid))

        print('%s tier=%s seed=%d cases=%d/%d evaluations=%d distinct_nontrivial=%d violations=%d inconclusive=%d wall=%.1fs'
              % (pid, args.tier, args.seed, done, len(descs), evals, len(nontrivial) + nontrivial_n, len(new_viol), len(inconcl), wall))
        for k, v in sorted(counters.items()):
            print('  %-40s %d' % (k, v))
        for k, v in sorted(sets.items()):
            print('  seen %-35s %d distinct' % (k, len(v)))

        if new_viol:
            shown = {}
            for desc, v in new_viol:
                n = shown.get(v['signature'], 0)
                shown[v['signature']] = n + 1
                if n >= 2 or len(shown) > 12:
                    continue    # at most two witnesses per signature are written out
                path = write_replay(pid, desc, v, args.tier, args.seed)
                print('  violation: %s' % str(v['what'])[:300])
                print('VIOLATION property=%s replay=%s' % (pid, path))
            print('  %d violating observation(s), %d distinct signature(s): %s'
                  % (len(new_viol), len(shown), ', '.join('%s x%d' % kv for kv in sorted(shown.items()))[:600]))
            sys.exit(1)
        if inconcl or agg_inconcl:
            for d in inconcl[:5]:
                print('  inconclusive case: %s' % (d['note'] or '')[-600:])
            reason = '; '.join(agg_inconcl) or ('%d case(s) inconclusive' % len(inconcl))
            # a handful of timed-out cases among thousands do not void the rest of the run
            if agg_inconcl or len(inconcl) > max(3, done // 100):
                inconclusive(reason.replace('\n', ' ')[:300])
            print('  note: %s (tolerated, reported in evidence)' % reason)
        sys.exit(0)
    finally:
        shutil.rmtree(wroot, ignore_errors=True)
