"""C05 - The VCF from map carries the same information as the mapped alignment (relation between two real outputs)."""
from .. import gen as G
from .. import model as M
from ..run import Result, fingerprint
from . import c04

ID = 'C05'
LEVEL = 'exploration'
BUDGET = {'quick': 150, 'thorough': 1800}
CHUNK = 4
RULE = ('Workload of C04 (references with several contigs, two per run of 80 kb and 300 kb, N, lower case, repeats; samples with SNPs, indels, ambiguity '
        'codes; all mask flags).  For each case `ska map -f aln` and `ska map -f vcf` are run on the same inputs and the VCF '
        'is checked against the real alignment: a record at (contig, 1-based position) exactly where some sample differs '
        'from the upper-case reference base, REF = reference base (N if not A/C/G/T), every genotype decodes through '
        'REF/ALT to the aligned character (. for -, N for ambiguity codes), contig and sample names/order, records in '
        'reference order.  The VCF run uses --threads 1..7 independently of the alignment run, and a quarter of the VCFs is written with -o over an existing longer file.  Cross-check: the alignment itself against the C04 model.  One case in twelve has ambiguity codes in the reference (REF must then read N; no model cross-check there).  Non-trivial: at least one record '
        'expected; distinct = distinct (k, mode, flags, reference, samples).')
ASSUMPTIONS = ['the oracle is the real `ska map -f aln` output of the same run; C05 stays meaningful if C04 fails',
               'contig names are c<i> or taken from a pool of realistic names (chr10, NC_000913.3, contig-5|x, ...), in non-sorted order']
REQUIRED = {t: ['records_checked', 'multiallelic_records', 'records_on_later_contigs', 'ref_N_records',
                'lowercase_ref_cases', 'missing_genotypes', 'N_genotypes', 'references_with_ambiguity_codes',
                'vcf_written_over_existing_longer_file', 'vcf_threads_not_dividing_reference_length', 'records_in_last_columns_of_reference', 'references_over_262144_bases', 'unusual_contig_names', 'duplicate_contig_names', 'records_where_255..257_samples_differ'] for t in ('quick', 'thorough')}


def builds(tier):
    return ['rel', 'chk']


def plan(tier, seed, rng, scale):
    descs = c04.plan(tier, seed + 5000, rng, scale * 0.8)
    for i, d in enumerate(descs):
        d['unique_sample_names'] = True      # a VCF cannot carry two samples of one name (DESIGN.md section 8)
        if i % 12 == 5 and d['kind'] in ('random', 'pattern', 'lower'):
            d['iupac_ref'] = True        # reference bases that are neither A/C/G/T nor N: REF must read N
    return descs


def parse_vcf(txt):
    recs = []
    names = None
    contigs = []
    for l in txt.split('\n'):
        if l.startswith('##contig=<ID='):
            contigs.append(l[len('##contig=<ID='):].split(',')[0].rstrip('>'))
        if l.startswith('#CHROM'):
            names = l.split('\t')[9:]
        if not l or l.startswith('#'):
            continue
        f = l.split('\t')
        recs.append({'chrom': f[0], 'pos': int(f[1]), 'ref': f[3], 'alt': f[4].split(',') if f[4] != '.' else [],
                     'fmt': f[8], 'gt': f[9:]})
    return contigs, names, recs


def run_case(desc, ctx):
    res = Result()
    k, rcmode = desc['k'], desc['rc']
    fl = ('am' if desc['am'] else '') + ('+' if desc['am'] and desc['rm'] else '') + ('rm' if desc['rm'] else '')
    res.count('kind:' + desc['kind'])
    res.see('k_rc', '%d/%s' % (k, 'rc' if rcmode else 'ss'))
    for variant in (['rel', 'chk'] if desc.get('chk') else ['rel']):
        b = ctx.bins[variant]
        try:
            st = c04.setup(desc, ctx, res, b)
        except (G.NkFailed, ValueError):
            res.count('setup_failed')
            return res
        if st is None:
            res.count('sample_build_refused')
            return res
        ref, names = st['ref'], st['names']
        flags = c04.flags_of(desc)
        # the two runs get their own thread counts (the VCF writer may be parallel in its own way), and a share of the
        # VCFs is written with -o over an existing, longer file
        tv = [1, 2, 3, 4, 5, 7][(desc['seed'] // 5) % 6]
        ta = [1, 1, 2, 3][(desc['seed'] // 30) % 4]
        a = ctx.sh(b, 'map', ctx.path('ref.fa'), *c04.map_inputs(desc, ctx, st), *flags, '--threads', ta)
        if desc['seed'] % 4 == 1:
            vout = G.stale_file(ctx, 'stale.vcf')
            v = ctx.sh(b, 'map', '-f', 'vcf', ctx.path('ref.fa'), *c04.map_inputs(desc, ctx, st), *flags, '--threads', tv, '-o', vout)
            if v.returncode == 0:
                v = type('R', (), {'returncode': 0, 'stdout': open(vout).read(), 'stderr': v.stderr})()
            if variant == 'rel':
                res.count('vcf_written_over_existing_longer_file')
        else:
            v = ctx.sh(b, 'map', '-f', 'vcf', ctx.path('ref.fa'), *c04.map_inputs(desc, ctx, st), *flags, '--threads', tv)
        if variant == 'rel':
            res.see('vcf_threads', tv)
            if tv > 1 and sum(len(c) for c in ref) % tv:
                res.count('vcf_threads_not_dividing_reference_length')
        if variant == 'chk':
            res.count('chk_runs')
            if 'overflow' in (a.stderr + v.stderr):
                res.count('chk_overflow_panics')
                continue
        else:
            res.evals += 1
        if a.returncode != 0 or v.returncode != 0:
            if (a.returncode != 0) != (v.returncode != 0):
                res.violate('C05:one-fails', 'k=%d %s: aln exit %d, vcf exit %d: %s'
                            % (k, fl, a.returncode, v.returncode, (a.stderr + v.stderr).strip()[-200:]),
                            {'ref': ref, 'samples': st['samples']})
            else:
                res.count('both_refused')
            continue
        gn, gs = M.parse_fasta(a.stdout)
        try:
            contigs, vnames, recs = parse_vcf(v.stdout)
        except (ValueError, IndexError) as e:
            res.violate('C05:unparsable', 'k=%d: VCF cannot be parsed: %s' % (k, e), {'ref': ref, 'samples': st['samples']})
            continue
        bad = []
        if vnames != gn:
            bad.append('sample names %s vs alignment %s' % (vnames, gn))
        uniq = list(dict.fromkeys(st['contig_names']))
        if contigs != uniq:
            # a VCF header cannot list one ID twice: the names of the input in order of first appearance
            bad.append('contig header %s' % contigs)
        total = sum(len(c) for c in ref)
        if any(len(x) != total for x in gs):
            # positions of the alignment cannot be related to (contig, position) pairs at all
            res.violate('C05:%s:length' % (fl or 'none'),
                        'k=%d rc=%s flags=%s kind=%s (%s): alignment sequences have length %s, the concatenated reference %d; '
                        'VCF has %d records under contigs %s' % (k, rcmode, fl or 'none', desc['kind'], variant, sorted(set(map(len, gs))), total, len(recs), contigs),
                        {'ref': ref, 'samples': st['samples'], 'alignment': gs, 'vcf': v.stdout[-2000:]})
            continue
        # expected records in reference order (contig names may repeat: matching is by position in the sequence of records)
        exp_list = []
        off = 0
        for ci, c in enumerate(ref):
            cu = c.upper()
            for p_ in range(len(c)):
                col = [s[off + p_] for s in gs]
                rb = cu[p_]
                if any(ch != rb for ch in col):
                    exp_list.append(((st['contig_names'][ci], p_ + 1), col, rb, ci, off + p_))
            off += len(c)
        exp_keys = [e[0] for e in exp_list]
        order = [(r['chrom'], r['pos']) for r in recs]
        nrec = 0
        if order != exp_keys:
            i_ = 0
            while i_ < min(len(order), len(exp_keys)) and order[i_] == exp_keys[i_]:
                i_ += 1
            if i_ < len(exp_keys) and (i_ >= len(order) or exp_keys[i_] not in order[i_:i_ + 3]):
                e = exp_list[i_]
                bad.append('missing record %s column=%s ref=%s (record %d of %d expected, %d written)' % (e[0], ''.join(e[1]), e[2], i_ + 1, len(exp_keys), len(order)))
            else:
                bad.append('spurious or misplaced record %s as record %d (%d expected, %d written)' % (order[i_], i_ + 1, len(exp_keys), len(order)))
        else:
            for (key, col, rb, ci, gpos), r in zip(exp_list, recs):
                nrec += 1
                want_ref = rb if rb in 'ACGT' else 'N'
                if r['ref'] != want_ref:
                    bad.append('REF %s at %s, reference base %s' % (r['ref'], key, rb))
                if r['fmt'] != 'GT':
                    bad.append('FORMAT %s' % r['fmt'])
                alleles = [r['ref']] + r['alt']
                if len(set(r['alt'])) != len(r['alt']):
                    bad.append('duplicate ALT at %s' % (key,))
                if len(r['gt']) != len(col):
                    bad.append('%d genotypes for %d samples at %s' % (len(r['gt']), len(col), key))
                    continue
                for ch, g in zip(col, r['gt']):
                    want = ch if ch in 'ACGT-' else 'N'
                    if g == '.':
                        dec = '-'
                        res.count('missing_genotypes')
                    else:
                        try:
                            dec = alleles[int(g)]
                        except (ValueError, IndexError):
                            dec = '?'
                    if g == '0':
                        # genotype 0 means "equal to the reference base" (which itself may be a non-ACGT character)
                        dec = rb
                        want = ch
                    elif ch == rb:
                        bad.append('genotype %s at %s for a sample equal to the reference base' % (g, key))
                    if dec == 'N' and g != '0':
                        res.count('N_genotypes')
                    if dec != want:
                        bad.append('genotype %s at %s decodes to %s, alignment has %s (REF %s ALT %s)'
                                   % (g, key, dec, ch, r['ref'], r['alt']))
                used = {int(g) for g in r['gt'] if g not in ('.',) and g.isdigit()}
                if any(i + 1 not in used for i in range(len(r['alt']))):
                    bad.append('unused ALT allele at %s' % (key,))
                if len(r['alt']) >= 2:
                    res.count('multiallelic_records')
                if ci > 0:
                    res.count('records_on_later_contigs')
                if want_ref == 'N':
                    res.count('ref_N_records')
                if gpos >= total - 7:
                    res.count('records_in_last_columns_of_reference')
                nd = sum(1 for ch in col if ch != rb)
                if nd in (255, 256, 257):
                    res.count('records_where_255..257_samples_differ')
        # cross-check the alignment against the C04 model
        if desc.get('iupac_ref'):
            if variant == 'rel':
                res.count('references_with_ambiguity_codes')
        else:
            exp_aln, matched, _masked = c04.expected_map(ref, st['table'], len(names), k, rcmode, desc['am'], desc['rm'])
            if gs != exp_aln:
                res.count('alignment_differs_from_model(C04)')
        if bad:
            res.violate('C05:%s:vcf' % (fl or 'none'),
                        'k=%d rc=%s flags=%s kind=%s (%s): %s' % (k, rcmode, fl or 'none', desc['kind'], variant, '; '.join(bad[:4])),
                        {'ref': ref, 'samples': st['samples'], 'alignment': gs, 'vcf': v.stdout[-3000:]})
            continue
        if variant == 'rel':
            if total > 262144:
                res.count('references_over_262144_bases')
            res.count('records_checked', nrec)
            res.count('positions_compared', sum(len(c) for c in ref))
            if any(ch.islower() for c in ref for ch in c):
                res.count('lowercase_ref_cases')
            if nrec:
                res.nontrivial.append(fingerprint([k, rcmode, fl, ref, st['samples']]))
            if res.sample is None and nrec and len(ref) > 1:
                res.sample = {'k': k, 'rc': rcmode, 'flags': fl, 'reference': ref, 'samples': st['samples'],
                              'records': len(recs), 'first_records': recs[:3]}
    return res
