"""C08 - Deleting samples leaves exactly the file built from the remaining samples."""
import itertools
import os
import random

from .. import gen as G
from .. import model as M
from ..run import Result, fingerprint
from . import c07

ID = 'C08'
LEVEL = 'exploration'
BUDGET = {'quick': 150, 'thorough': 1800}
CHUNK = 2
RULE = ('Cases: files of 2..8 samples (C07 sample styles, so that some k-mers are private to deleted samples); for n<=5 '
        'every non-empty proper subset is deleted (exhaustive over subsets), random subsets above; names given on the command '
        'line or in a names file (one per line; with/without trailing newline; with blank lines between names, where a clean refusal is accepted as well as the exact deletion), in place, with -o, or with -o naming the input file itself.  A few files per run are large (up to ~100k rows, mostly private k-mers), a few hold 257..260 samples from which deletions leave exactly 255, 256 and 257.  '
        'The result is compared with a `ska build` of the remaining samples (differential) and with the model, and every stored field of the two files (per-row counts, container lengths) is compared through the harness; a quarter of the files first pass through `ska weed --filter-ambig-as-missing` with a one-sample threshold (stored files with a history; model only).  A valid deletion whose -o target cannot be written (missing directory, path is a directory) must not exit 0 without a result, and leaves the input alone.  Refusal cases '
        '(unknown name, all names, all names with one of them repeated) must exit non-zero and leave the file byte-identical.  Non-trivial: at least one k-mer '
        'disappears or at least two non-adjacent columns are removed; distinct = distinct (k, mode, samples, subset, route).')
ASSUMPTIONS = ['sample names are [A-Za-z0-9_]+ ; a share of names end in .fa/.fasta to exercise name handling',
               'the build of the remaining samples is a run of the same binary (differential); the model is independent']
REQUIRED = {t: ['route:cli', 'names_starting_with_a_comment_or_marker_character', 'route:file', 'route:file-no-trailing-newline', 'route:file-blank-lines', 'inplace', 'with-o',
                'refuse:unknown', 'refuse:all', 'refuse:all-with-repeat', 'kmers_removed', 'nonadjacent_deletions', 'width64', 'width128', 'pretreated_files',
                'stored_rows_compared', 'samples_with_a_private_row_coded_N', 'names_differing_in_case_only', 'refuse:unknown-case', 'names_files_over_8KiB', 'deletions_leaving_255..257_samples', 'rows_present_in_exactly_256_remaining_samples', 'unwritable_output_refused', 'with-o-naming-the-input-file', 'refusals_with-o-naming-the-input-file', 'files_of_4096+_rows']
            for t in ('quick', 'thorough')}


def builds(tier):
    return ['rel', 'chk', 'harness']


def plan(tier, seed, rng, scale):
    descs = []
    for k in (29, 31, 33, 35):
        for ns in (2, 3, 4, 5):
            descs.append({'k': k, 'rc': rng.random() < 0.7, 'ns': ns, 'exhaustive': True, 'seed': rng.getrandbits(32)})
    n = int((1500 if tier == 'quick' else 20000) * scale)
    for i in range(n):
        ns = rng.randint(2, 8)
        descs.append({'k': rng.choice(G.ALL_K), 'rc': rng.random() < 0.7, 'ns': ns,
                      'exhaustive': ns <= 5 and (tier == 'thorough' or i % 10 == 0), 'seed': rng.getrandbits(32)})
    for i in range(int((8 if tier == 'quick' else 60) * max(scale, 0.25))):
        # large files (thousands to ~100k rows) of mostly unrelated samples: most rows are private to one sample, so that
        # rows at any place of the stored table (first, last, block boundaries of a chunked pass) vanish with a deletion
        descs.insert(16 + 3 * i, {'k': rng.choice([15, 21, 31, 33, 41]), 'rc': rng.random() < 0.7, 'ns': rng.randint(3, 4), 'exhaustive': False,
                                  'large': rng.choice([1500, 2500, 6000, 12000, 25000] if tier == 'quick' else [1500, 6000, 12000, 25000, 40000, 70000]),
                                  'seed': rng.getrandbits(32)})
    for i in range(int((3 if tier == 'quick' else 12) * max(scale, 0.34))):
        # hundreds of samples, deletions that leave exactly 255 / 256 / 257: per-row tallies beyond one byte
        descs.insert(20 + 4 * i, {'k': rng.choice([15, 31, 33]), 'rc': True, 'ns': [257, 258, 260][i % 3], 'exhaustive': False, 'crowd': True,
                                  'seed': rng.getrandbits(32)})
    for i, d in enumerate(descs):
        d['chk'] = (i % 7 == 0) and not d.get('large') and not d.get('crowd')
        if i % 4 == 2 and not d.get('large') and not d.get('crowd'):
            d['pretreat'] = {2: '0.5', 3: '0.34', 4: '0.25', 5: '0.2', 6: '0.17', 7: '0.15', 8: '0.125'}[d['ns']]
    return descs


def run_case(desc, ctx):
    res = Result()
    k, rcmode, ns = desc['k'], desc['rc'], desc['ns']
    rng = random.Random(desc['seed'])
    if desc.get('crowd'):
        base = G.rseq(rng, 12 * k)
        samples = []
        for _ in range(ns):
            t = list(base)
            if rng.random() < 0.03:                   # most k-mers stay present in every sample: rows counted 255, 256, 257 times
                t[rng.randrange(len(t))] = rng.choice('ACGT')
            samples.append([''.join(t)] + ([G.rseq(rng, k + 2)] if rng.random() < 0.1 else []))
    elif desc.get('large'):
        shared = G.rseq(rng, desc['large'] // 10)
        samples = [[G.rseq(rng, rng.randint(desc['large'] // 2, desc['large'])), shared] for _ in range(ns)]
    else:
        samples = c07.gen_samples(rng, k, ns)
    for recs in samples:
        if rng.random() < 0.4:
            # a second, slightly different copy of a record inside the sample: ambiguity codes in the table
            src = list(rng.choice(recs))
            for _ in range(rng.randint(1, 3)):
                src[rng.randrange(len(src))] = rng.choice('ACGT')
            recs.append(''.join(src))
    if not desc.get('crowd') and not desc.get('large') and rng.random() < 0.3:
        # one sample holds a split k-mer of its own with all four middle bases (stored code N): after deleting others it keeps it
        i_ = rng.randrange(ns)
        a_ = G.canonical_arms(rng, k, rcmode)
        h_ = (k - 1) // 2
        samples[i_] = samples[i_] + [a_[:h_] + b_ + a_[h_:] + 'N' for b_ in 'ACGT']
        res.count('samples_with_a_private_row_coded_N')
    if any(not M.build(r, k, rcmode) for r in samples):
        res.count('degenerate_sample_skipped')
        return res
    odd_names = rng.random() < 0.25
    names = []
    for i in range(ns):
        nm = 'n%d' % i if not desc.get('crowd') else 'isolate_%03d_%s' % (i, 'x' * 48)
        if odd_names and rng.random() < 0.5:
            nm += rng.choice(['.fa', '.fasta', '_x.fastq', ',1', ',b.fa'])
        if odd_names and not desc.get('crowd') and rng.random() < 0.4:
            # names that begin with what other formats use for comments, headers or markers: a name is a name
            nm = rng.choice(['#', '#', ';', '@', '>', '%', '!', '//', '=']) + nm
            res.count('names_starting_with_a_comment_or_marker_character')
        names.append(nm)
    if not desc.get('crowd') and ns >= 3 and rng.random() < 0.2:
        # two names that differ in letter case only
        i_, j_ = rng.sample(range(ns), 2)
        names[j_] = names[i_].upper() if names[i_].upper() != names[i_] else names[i_].lower()
        if len(set(names)) == ns:
            res.count('names_differing_in_case_only')
    files = [G.write_fa(ctx.path('in%d.fa' % i), recs) for i, recs in enumerate(samples)]
    ctx.write('list.tsv', ''.join('%s\t%s\n' % (names[i], files[i]) for i in range(ns)))
    T = M.table_of(samples, k, rcmode)
    res.see('k_rc', '%d/%s' % (k, 'rc' if rcmode else 'ss'))
    res.count('width64' if k <= 31 else 'width128')
    if desc['exhaustive']:
        subsets = [list(c) for r in range(1, ns) for c in itertools.combinations(range(ns), r)]
    elif desc.get('crowd'):
        subsets = [sorted(rng.sample(range(ns), ns - left)) for left in (256, 255, 257) if ns - left >= 1]
        # and one deletion of most samples through a names file of more than 8 KiB (long names)
        subsets.append(sorted(rng.sample(range(ns), ns - rng.randint(5, 40))))
        res.count('deletions_leaving_255..257_samples', len(subsets))
    else:
        subsets = [sorted(rng.sample(range(ns), rng.randint(1, ns - 1))) for _ in range(2)]
    for variant in (['rel', 'chk'] if desc.get('chk') else ['rel']):
        b = ctx.bins[variant]
        p = G.ska_build(ctx, ctx.path('all'), ['-f', ctx.path('list.tsv')], k, rcmode, binary=b)
        if p.returncode != 0:
            res.count('setup_build_failed')
            return res
        Tcur = T
        pretreated = False
        if desc.get('pretreat'):
            # the file first goes through `ska weed --filter-ambig-as-missing` with a one-sample threshold (drops only rows
            # without any unambiguous base); delete must then treat it like any other stored file
            pt = ctx.sh(b, 'weed', ctx.path('all.skf'), '--filter-ambig-as-missing', '--min-freq', desc['pretreat'])
            Tcur = M.t_filter(T, 'no-filter', M.floor_thr(desc['pretreat'], ns), True, False, False)
            try:
                _h, Tread = G.nk(ctx, ctx.path('all.skf'), binary=b)
            except (G.NkFailed, ValueError):
                Tread = None
            if pt.returncode != 0 or Tread != Tcur or not Tcur:
                res.count('pretreatment_not_as_modelled(C10)')
                return res
            pretreated = True
            if variant == 'rel':
                res.count('pretreated_files')
        original = open(ctx.path('all.skf'), 'rb').read()
        for dn in (subsets if variant == 'rel' else subsets[:2]):
            keep = [i for i in range(ns) if i not in dn]
            route = rng.choice(['cli', 'file', 'file-no-trailing-newline', 'file-blank-lines'])
            if desc.get('crowd') and len(dn) > 150:
                route = 'file'
                if variant == 'rel':
                    res.count('names_files_over_8KiB')
            inplace = rng.random() < 0.5
            samefile = (not inplace) and rng.random() < 0.3       # -o naming the very file given with -s
            ctx.write('work.skf', original)
            dnames = [names[i] for i in dn]
            rng.shuffle(dnames)
            if route == 'cli':
                src = dnames
            else:
                txt = '\n'.join(dnames) + '\n'
                if route == 'file-no-trailing-newline':
                    txt = txt[:-1]
                if route == 'file-blank-lines':
                    lines = txt.split('\n')[:-1]
                    lines.insert(rng.randint(1, len(lines)), rng.choice(['', '  ', '\t']))      # never before the first name only: anywhere after it
                    if rng.random() < 0.5:
                        lines.insert(0, '')
                    txt = '\n'.join(lines) + '\n'
                ctx.write('names.txt', txt)
                src = ['-f', ctx.path('names.txt')]
            oname = rng.choice(['out', 'out', 'kept.v2'])                   # output prefixes with and without dots
            if samefile:
                oname = rng.choice(['work', 'work.skf'])
            outargs = [] if inplace else ['-o', ctx.path(oname)]
            result_file = ctx.path('work.skf') if inplace or samefile else ctx.path(oname + '.skf')
            if not samefile and os.path.exists(ctx.path(oname + '.skf')):
                os.remove(ctx.path(oname + '.skf'))
            pd = ctx.sh(b, 'delete', '-s', ctx.path('work.skf'), *outargs, *src)
            if variant == 'chk':
                res.count('chk_runs')
                if pd.returncode != 0 and 'overflow' in pd.stderr:
                    res.count('chk_overflow_panics')
                    continue
            else:
                res.evals += 1
                res.count('route:' + route)
                res.count('inplace' if inplace else 'with-o')
                if samefile:
                    res.count('with-o-naming-the-input-file')
                if len(T) >= 4096:
                    res.count('files_of_4096+_rows')
                    res.see('large_rows', len(T))
            sig = 'C08:%s' % ('file' if route != 'cli' else 'cli')
            if route == 'file-blank-lines' and pd.returncode != 0:
                # whether blank lines are tolerated is not stated: a refusal is fine if it leaves the file alone
                if open(ctx.path('work.skf'), 'rb').read() != original or (not inplace and not samefile and os.path.exists(result_file)):
                    res.violate(sig + ':blank-refused-but-changed', 'names file with a blank line: exit %d but a file was written' % pd.returncode,
                                {'names_file': txt})
                else:
                    res.count('blank_lines_refused_cleanly')
                continue
            if pd.returncode != 0:
                res.violate(sig + ':failed', 'k=%d delete %s via %s failed: %s' % (k, dnames, route, pd.stderr.strip()[-160:]),
                            {'names': names, 'delete': dnames, 'route': route, 'names_file': None if route == 'cli' else txt})
                continue
            try:
                hd, Td = G.nk(ctx, result_file, binary=b)
            except (G.NkFailed, ValueError, OSError) as e:
                res.violate(sig + ':nk-failed', 'nk failed after delete: %s' % e, {'names': names, 'delete': dnames})
                continue
            ctx.write('rest.tsv', ''.join('%s\t%s\n' % (names[i], files[i]) for i in keep))
            pr = G.ska_build(ctx, ctx.path('rest'), ['-f', ctx.path('rest.tsv')], k, rcmode, binary=b)
            hr, Tr = G.nk(ctx, ctx.path('rest.skf'), binary=b)
            model = M.t_delete(Tcur, set(dn))
            if pretreated:
                Tr, hr = model, dict(hd)          # no `ska build` equivalent of a filtered file: the model alone decides
            bad = []
            if hd.get('names') != [names[i] for i in keep]:
                bad.append('names %s expected %s' % (hd.get('names'), [names[i] for i in keep]))
            if Td != Tr:
                d = [(x, Td.get(x), Tr.get(x)) for x in set(Td) | set(Tr) if Td.get(x) != Tr.get(x)]
                bad.append('differs from a build of the remaining samples: %s' % d[:3])
            if Td != model:
                d = [(x, Td.get(x), model.get(x)) for x in set(Td) | set(model) if Td.get(x) != model.get(x)]
                bad.append('differs from the model: %s' % d[:3])
            for f in ('k', 'rc', 'k-mers', 'samples', 'sample_kmers'):
                if hd.get(f) != hr.get(f):
                    bad.append('header %s: %s vs rebuilt %s' % (f, hd.get(f), hr.get(f)))
            if variant == 'rel' and not pretreated:
                # every stored field (per-row counts and container lengths included), not only what nk prints
                sd, sr = G.stored_rows(ctx, result_file), G.stored_rows(ctx, ctx.path('rest.skf'))
                if sd is None or sr is None or sd != sr:
                    dd = [] if sd is None or sr is None else [(x, sd[1].get(x), sr[1].get(x)) for x in set(sd[1]) | set(sr[1]) if sd[1].get(x) != sr[1].get(x)]
                    bad.append('stored object differs from the rebuilt one: header %s vs %s, rows (k-mer, deleted, rebuilt) %s'
                               % (sd and sd[0], sr and sr[0], dd[:3]))
                else:
                    res.count('stored_rows_compared', len(sd[1]))
            if not inplace and not samefile and open(ctx.path('work.skf'), 'rb').read() != original:
                bad.append('input file modified although -o was given')
            if bad:
                res.violate(sig + ':table', 'k=%d rc=%s ns=%d delete=%s route=%s inplace=%s (%s): %s'
                            % (k, rcmode, ns, dn, route, inplace, variant, '; '.join(bad[:3])),
                            {'samples': samples, 'names': names, 'delete': dn})
                continue
            if variant == 'rel':
                removed = len(Tcur) - len(model)
                res.count('ambiguous_cells_in_files', sum(1 for r in Tcur.values() for x in r if M.is_ambig(x)))
                res.count('kmers_removed', removed)
                if desc.get('crowd'):
                    res.count('rows_present_in_exactly_256_remaining_samples', sum(1 for r in model.values() if sum(1 for x in r if x != '-') == 256))
                nonadj = len(dn) >= 2 and any(b2 - a2 > 1 for a2, b2 in zip(dn, dn[1:]))
                if nonadj:
                    res.count('nonadjacent_deletions')
                if removed or nonadj:
                    res.nontrivial.append(fingerprint([k, rcmode, samples, dn, route, inplace]))
        if variant == 'rel':
            # a valid deletion whose result cannot be written (directory missing / the path is a directory): either a
            # non-zero exit with the input untouched, or - never the case here - a correct result; exit 0 with nothing
            # written is a silent loss
            for what in ('missing-directory', 'is-a-directory'):
                ctx.write('work.skf', original)
                if what == 'missing-directory':
                    target = ctx.path('no_such_dir/out')
                else:
                    os.makedirs(ctx.path('adir.skf'), exist_ok=True)
                    target = ctx.path('adir')
                pd = ctx.sh(b, 'delete', '-s', ctx.path('work.skf'), '-o', target, names[0]) if ns > 1 else None
                if pd is None:
                    continue
                res.evals += 1
                after = open(ctx.path('work.skf'), 'rb').read()
                written = os.path.isfile(target + '.skf')
                if (pd.returncode == 0 and not written) or after != original:
                    res.violate('C08:unwritable:' + what, 'delete -o %s (%s): exit=%d, result written=%s, input changed=%s'
                                % (os.path.basename(target), what, pd.returncode, written, after != original), {'names': names})
                else:
                    res.count('unwritable_output_refused')
            # refusal cases: unknown name (alone and next to a valid one), all names
            dup = list(names) + [rng.choice(names)]
            rng.shuffle(dup)
            wrongcase = names[0].swapcase()
            extra_ref = [('unknown-case', [wrongcase])] if wrongcase not in names and wrongcase != names[0] else []
            for what, dnames in [('unknown', [names[0], 'nosuchsample']), ('unknown', ['nosuchsample']), ('all', list(names)),
                                 ('all-with-repeat', dup)] + extra_ref:
                for route in ('cli', 'file'):
                    ctx.write('work.skf', original)
                    if route == 'cli':
                        src = dnames
                    else:
                        ctx.write('names.txt', '\n'.join(dnames) + '\n')
                        src = ['-f', ctx.path('names.txt')]
                    same = ['-o', ctx.path('work')] if rng.random() < 0.3 else []
                    pd = ctx.sh(b, 'delete', '-s', ctx.path('work.skf'), *same, *src)
                    res.evals += 1
                    if same:
                        res.count('refusals_with-o-naming-the-input-file')
                    after = open(ctx.path('work.skf'), 'rb').read()
                    if pd.returncode == 0 or after != original:
                        res.violate('C08:refuse:%s:%s' % (what, route),
                                    'delete %s (%s) exit=%d file changed=%s' % (dnames, route, pd.returncode, after != original),
                                    {'names': names})
                    else:
                        res.count('refuse:' + what)
    if res.sample is None:
        res.sample = {'k': k, 'rc': rcmode, 'names': names, 'samples': samples, 'subsets_deleted': subsets[:6]}
    return res
