"""C02 - Build is invariant to strand, record order, letter case, wrapping and gzip (metamorphic, model-free)."""
import random

from .. import gen as G
from .. import model as M
from ..run import Result, fingerprint
from . import c01

ID = 'C02'
LEVEL = 'exploration'
BUDGET = {'quick': 150, 'thorough': 1500}
CHUNK = 8
RULE = ('Each case builds an input and a transformed copy with the real ska and compares the two `nk --full-info` tables '
        '(no model involved).  Transformations, each alone and all combined: reverse-complement a random non-empty subset of '
        'records (two-strand mode only), permute records, random case mask, re-wrap sequence lines at 1..70 columns, gzip, '
        'permute the sample files on the command line (columns must be permuted accordingly; also with 20..160 samples and --threads 2..16, the recursive parallel build).  Non-trivial: the base build '
        'has at least one k-mer and the transformation changed the file bytes or argument order; distinct = distinct '
        '(k, mode, input, transformation).')
ASSUMPTIONS = ['both builds are runs of the same binary; equality of the decoded tables is the oracle',
               'the input generators are those of C01 (record lengths around k, N runs, repeats, palindromes)']
TRANSFORMS = ['rc', 'perm', 'case', 'wrap', 'gzip', 'sampleperm', 'all']
REQUIRED = {t: ['tr:' + x for x in TRANSFORMS] + ['many_sample_cases'] for t in ('quick', 'thorough')}


def builds(tier):
    return ['rel', 'chk']


def plan(tier, seed, rng, scale):
    descs = []
    # every k and mode with every transformation at least once
    for k in G.ALL_K:
        for rcmode in (True, False):
            for tr in TRANSFORMS:
                if tr == 'rc' and not rcmode:
                    continue
                descs.append({'k': k, 'rc': rcmode, 'tr': tr, 'kind': 'multi', 'seed': rng.getrandbits(32)})
    n = int((10000 if tier == 'quick' else 60000) * scale)
    kinds = ['random', 'multi', 'repeat', 'pal', 'rcrec', 'nend', 'len']
    for i in range(n):
        rcmode = rng.random() < 0.65
        tr = rng.choice(TRANSFORMS)
        if tr == 'rc' and not rcmode:
            tr = 'all'
        descs.append({'k': rng.choice(G.ALL_K), 'rc': rcmode, 'tr': tr, 'kind': rng.choice(kinds),
                      'seed': rng.getrandbits(32)})
    for i in range(int((12 if tier == 'quick' else 120) * scale)):
        descs.append({'k': rng.choice([9, 15, 31, 33]), 'rc': True, 'tr': 'sampleperm', 'kind': 'many', 'seed': rng.getrandbits(32),
                      'threads': rng.choice([2, 4, 8, 16])})
    for i, d in enumerate(descs):
        d['chk'] = (i % 9 == 0) and d['kind'] != 'many'
    return descs


_RC = {'A': 'T', 'C': 'G', 'G': 'C', 'T': 'A', 'N': 'N', 'a': 't', 'c': 'g', 'g': 'c', 't': 'a', 'n': 'n'}


def rc_keepcase(s):
    return ''.join(_RC[c] for c in reversed(s))


def transform(rng, samples, tr, rcmode):
    """Returns (new samples, wrap, gz, permutation of samples)."""
    ns = len(samples)
    out = [list(r) for r in samples]
    wrap, gz = 0, False
    perm = list(range(ns))
    every = tr == 'all'
    if (tr == 'rc' or every) and rcmode:
        allrecs = [(i, j) for i, r in enumerate(out) for j in range(len(r))]
        chosen = set(rng.sample(allrecs, rng.randint(1, len(allrecs))))
        for (i, j) in chosen:
            out[i][j] = rc_keepcase(out[i][j])
    if tr == 'perm' or every:
        for r in out:
            rng.shuffle(r)
    if tr == 'case' or every:
        p = rng.choice([0.1, 0.5, 1.0])
        out = [[''.join(c.swapcase() if rng.random() < p else c for c in s) for s in r] for r in out]
    if tr == 'wrap' or every:
        wrap = rng.choice([1, 3, 7, 10, 60, 70])
    if tr == 'gzip' or every:
        gz = True
    if tr == 'sampleperm' or every:
        rng.shuffle(perm)
    return out, wrap, gz, perm


def run_case(desc, ctx):
    res = Result()
    k, rcmode, tr = desc['k'], desc['rc'], desc['tr']
    if desc['kind'] == 'many':
        r0 = random.Random(desc['seed'] ^ 0x3a)
        base = G.rseq(r0, 3 * k)
        samples = []
        for _ in range(r0.choice([20, 40, 70, 72, 80, 160])):
            t = list(base)
            for _j in range(r0.randint(0, 3)):
                t[r0.randrange(len(t))] = r0.choice('ACGT')
            samples.append([''.join(t)])
        res.count('many_sample_cases')
    else:
        samples = c01.gen_records(desc)
    if desc['kind'] not in ('multi', 'many') and tr in ('sampleperm', 'all'):
        # make it a multi-sample input so that a column permutation exists
        d2 = dict(desc)
        d2['seed'] ^= 0x77
        samples = samples + c01.gen_records(d2)
    rng = random.Random(desc['seed'] ^ 0xc02)
    res.count('tr:' + tr)
    res.see('k_rc', '%d/%s' % (k, 'rc' if rcmode else 'ss'))
    base_files = [G.write_fa(ctx.path('s%d.fa' % i), recs) for i, recs in enumerate(samples)]
    tsamples, wrap, gz, perm = transform(rng, samples, tr, rcmode)
    t_files = [G.write_fa(ctx.path('t%d.fa' % i + ('.gz' if gz else '')), recs, wrap=wrap, gz=gz)
               for i, recs in enumerate(tsamples)]
    changed = (tsamples != samples) or wrap or gz or perm != list(range(len(samples)))
    for variant in (['rel', 'chk'] if desc.get('chk') else ['rel']):
        b = ctx.bins[variant]
        th = ['--threads', desc['threads']] if desc.get('threads') else []
        p1 = G.ska_build(ctx, ctx.path('a_' + variant), base_files, k, rcmode, binary=b, extra=th)
        # the transformed build takes its inputs from a file list with explicit names (t<i>), so that the
        # file-name-to-sample-name rule (which does not know .fa.gz) is not part of what is compared
        ctx.write('list.tsv', ''.join('t%d\t%s\n' % (i, t_files[i]) for i in perm))
        p2 = G.ska_build(ctx, ctx.path('b_' + variant), ['-f', ctx.path('list.tsv')], k, rcmode, binary=b, extra=th)
        if variant == 'chk':
            res.count('chk_runs')
            if 'overflow' in (p1.stderr + p2.stderr):
                res.count('chk_overflow_panics')
                continue
        else:
            res.evals += 1
        if p1.returncode != 0 or p2.returncode != 0:
            if (p1.returncode != 0) != (p2.returncode != 0):
                res.violate('C02:%s:one-fails' % tr,
                            'k=%d rc=%s transformation %s: one build fails, the other succeeds' % (k, rcmode, tr),
                            {'samples': samples, 'transformed': tsamples, 'stderr1': p1.stderr[-300:], 'stderr2': p2.stderr[-300:]})
            else:
                res.count('both_refused')
            continue
        try:
            h1, t1 = G.nk(ctx, ctx.path('a_%s.skf' % variant), binary=b)
            h2, t2 = G.nk(ctx, ctx.path('b_%s.skf' % variant), binary=b)
        except (G.NkFailed, ValueError) as e:
            res.violate('C02:%s:nk-failed' % tr, 'nk failed: %s' % e, {'samples': samples})
            continue
        exp = {kk: [v[i] for i in perm] for kk, v in t1.items()}
        exp_names = ['t%d' % i for i in perm]
        if t2 != exp or h2.get('names') != exp_names or h1.get('k-mers') != h2.get('k-mers'):
            diff = [(x, exp.get(x), t2.get(x)) for x in set(exp) | set(t2) if exp.get(x) != t2.get(x)]
            res.violate('C02:%s:differs' % tr,
                        'k=%d rc=%s transformation %s changes the table: %s names=%s' % (k, rcmode, tr, diff[:3], h2.get('names')),
                        {'samples': samples, 'transformed': tsamples, 'wrap': wrap, 'gz': gz, 'perm': perm})
        elif variant == 'rel':
            res.count('rows_compared', len(t1))
            if changed and t1:
                res.nontrivial.append(fingerprint([k, rcmode, samples, tr, tsamples, wrap, gz, perm]))
    if res.sample is None and tr == 'all':
        res.sample = {'k': k, 'rc': rcmode, 'transformation': tr, 'input': samples, 'transformed': tsamples,
                      'wrap': wrap, 'gzip': gz, 'sample_order': perm}
    return res
