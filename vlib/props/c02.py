"""C02 - Build is invariant to strand, record order, letter case, wrapping and gzip (metamorphic, model-free)."""
import random

from .. import gen as G
from .. import model as M
from ..run import Result, fingerprint
from . import c01

ID = 'C02'
LEVEL = 'exploration'
BUDGET = {'quick': 150, 'thorough': 1500}
CHUNK = 8
RULE = ('Each case builds an input and a transformed copy with the real ska and compares the two `nk --full-info` tables '
        '(no model involved).  Transformations, each alone and all combined: reverse-complement a random non-empty subset of '
        'records (two-strand mode only), permute records, random case mask, re-wrap sequence lines at 1..70 columns, gzip, '
        'permute the sample files on the command line (columns must be permuted accordingly; also with 20..160 samples and --threads 2..16, the recursive parallel build).  The same for read input (1..4 read-pair samples with --min-count 1..3, all quality rules): reads reverse-complemented together with their quality strings, permuted inside their file, case, gzip, sample lines permuted.  Non-trivial: the base build '
        'has at least one k-mer and the transformation changed the file bytes or argument order; distinct = distinct '
        '(k, mode, input, transformation).')
ASSUMPTIONS = ['both builds are runs of the same binary; equality of the decoded tables is the oracle',
               'the input generators are those of C01 (record lengths around k, N runs, repeats, palindromes)']
TRANSFORMS = ['rc', 'perm', 'case', 'wrap', 'gzip', 'sampleperm', 'all']
REQUIRED = {t: ['tr:' + x for x in TRANSFORMS] + ['many_sample_cases', 'fastq_cases', 'sample_given_twice_side_by_side', 'lists_mixing_two_and_three_column_lines'] for t in ('quick', 'thorough')}


def builds(tier):
    return ['rel', 'chk']


def plan(tier, seed, rng, scale):
    descs = []
    # every k and mode with every transformation at least once
    for k in G.ALL_K:
        for rcmode in (True, False):
            for tr in TRANSFORMS:
                if tr == 'rc' and not rcmode:
                    continue
                descs.append({'k': k, 'rc': rcmode, 'tr': tr, 'kind': 'multi', 'seed': rng.getrandbits(32)})
    n = int((10000 if tier == 'quick' else 60000) * scale)
    kinds = ['random', 'multi', 'repeat', 'pal', 'rcrec', 'nend', 'len']
    for i in range(n):
        rcmode = rng.random() < 0.65
        tr = rng.choice(TRANSFORMS)
        if tr == 'rc' and not rcmode:
            tr = 'all'
        descs.append({'k': rng.choice(G.ALL_K), 'rc': rcmode, 'tr': tr, 'kind': rng.choice(kinds),
                      'seed': rng.getrandbits(32)})
    for i in range(int((12 if tier == 'quick' else 120) * scale)):
        descs.append({'k': rng.choice([9, 15, 31, 33]), 'rc': True, 'tr': 'sampleperm', 'kind': 'many', 'seed': rng.getrandbits(32),
                      'threads': rng.choice([2, 4, 8, 16])})
    for i in range(int((600 if tier == 'quick' else 6000) * scale)):
        rcmode = rng.random() < 0.7
        tr = rng.choice([t for t in TRANSFORMS if t != 'wrap'])
        if tr == 'rc' and not rcmode:
            tr = 'all'
        descs.append({'k': rng.choice([7, 9, 15, 21, 31, 33, 41]), 'rc': rcmode, 'tr': tr, 'kind': 'fastq', 'seed': rng.getrandbits(32)})
    for i, d in enumerate(descs):
        d['chk'] = (i % 9 == 0) and d['kind'] not in ('many', 'fastq')
    return descs


_RC = {'A': 'T', 'C': 'G', 'G': 'C', 'T': 'A', 'N': 'N', 'a': 't', 'c': 'g', 'g': 'c', 't': 'a', 'n': 'n'}


def rc_keepcase(s):
    return ''.join(_RC[c] for c in reversed(s))


def transform(rng, samples, tr, rcmode):
    """Returns (new samples, wrap, gz, permutation of samples)."""
    ns = len(samples)
    out = [list(r) for r in samples]
    wrap, gz = 0, False
    perm = list(range(ns))
    every = tr == 'all'
    if (tr == 'rc' or every) and rcmode:
        allrecs = [(i, j) for i, r in enumerate(out) for j in range(len(r))]
        chosen = set(rng.sample(allrecs, rng.randint(1, len(allrecs))))
        for (i, j) in chosen:
            out[i][j] = rc_keepcase(out[i][j])
    if tr == 'perm' or every:
        for r in out:
            rng.shuffle(r)
    if tr == 'case' or every:
        p = rng.choice([0.1, 0.5, 1.0])
        out = [[''.join(c.swapcase() if rng.random() < p else c for c in s) for s in r] for r in out]
    if tr == 'wrap' or every:
        wrap = rng.choice([1, 3, 7, 10, 60, 70])
    if tr == 'gzip' or every:
        gz = True
    if tr == 'sampleperm' or every:
        rng.shuffle(perm)
    return out, wrap, gz, perm


def run_fastq(desc, ctx):
    """The same invariances for read input: 1..4 read-pair samples over one genome, built with --min-count / --qual-filter /
    --min-qual, against a copy in which reads are reverse-complemented (qualities reversed with them), records permuted inside
    their file, case changed, files gzipped and the sample lines of the list permuted."""
    import gzip
    res = Result()
    k, rcmode, tr = desc['k'], desc['rc'], desc['tr']
    rng = random.Random(desc['seed'])
    ns = rng.randint(2, 4) if tr in ('sampleperm', 'all') else rng.randint(1, 3)
    minc, minq = rng.choice([1, 2, 2, 3]), rng.choice([0, 10, 20])
    rule = rng.choice(['no-filter', 'middle', 'strict'])
    genome = G.rseq(rng, rng.randint(3 * k, 6 * k))
    samples = []
    for s_ in range(ns):
        g = list(genome)
        for _ in range(rng.randint(0, 2)):
            g[rng.randrange(len(g))] = rng.choice('ACGT')
        g = ''.join(g)
        files = [[], []]
        for r in range(rng.randint(8, 20)):
            L = rng.randint(k, min(len(g), 3 * k))
            a = rng.randrange(len(g) - L + 1)
            t = g[a:a + L]
            if rng.random() < 0.5:
                t = M.rc(t)
            if rng.random() < 0.3:
                i_ = rng.randrange(L)
                t = t[:i_] + 'N' + t[i_ + 1:]                   # an N inside the read: the windows behind it start afresh
            q = ''.join(chr(33 + rng.choice([minq, max(0, minq - 1), minq + 1, 40, 40, 40])) for _ in range(L))
            if rng.random() < 0.2:
                q = chr(33 + max(0, minq - 1)) + q[1:]               # a low quality at the first base, i.e. in the first window
            if rng.random() < 0.2:
                h = (k - 1) // 2
                q = q[:h] + chr(33 + max(0, minq - 1)) + q[h + 1:]   # ... and at the middle base of the first window
            files[r % 2].append((t, q))
        if rng.random() < 0.6 and s_ > 0:
            # a stray read that other samples hold many times: below the count here, above it elsewhere
            files[0].append((genome[:k + 3], chr(33 + 40) * (k + 3)))
        samples.append(files)
    tsamples = [[list(f) for f in smp] for smp in samples]
    every = tr == 'all'
    gz = tr == 'gzip' or every
    perm = list(range(ns))
    if (tr == 'rc' or every) and rcmode:
        for smp in tsamples:
            for f in smp:
                for i in range(len(f)):
                    if rng.random() < 0.6:
                        f[i] = (M.rc_n(f[i][0]), f[i][1][::-1])
    if tr == 'perm' or every:
        for smp in tsamples:
            for f in smp:
                rng.shuffle(f)
    if tr == 'case' or every:
        tsamples = [[[(''.join(c.lower() if rng.random() < 0.5 else c for c in t), q) for (t, q) in f] for f in smp] for smp in tsamples]
    if tr == 'sampleperm' or every:
        rng.shuffle(perm)
    res.count('tr:' + tr)
    res.count('fastq_cases')

    def put(name, recs, z):
        txt = ''.join('@r%d\n%s\n+\n%s\n' % (i, t, q) for i, (t, q) in enumerate(recs))
        if z:
            with gzip.open(ctx.path(name + '.gz'), 'wt') as fh:
                fh.write(txt)
            return ctx.path(name + '.gz')
        return ctx.write(name, txt)

    # a share of the samples are given as one read file only (a two-column line among three-column ones)
    single = [ns >= 2 and rng.random() < 0.3 for _ in range(ns)]
    if any(single) and not all(single):
        res.count('lists_mixing_two_and_three_column_lines')

    def line(prefix, i, smp, z):
        if single[i]:
            return 't%d\t%s\n' % (i, put('%s%d_1.fastq' % (prefix, i), smp[0] + smp[1], z))
        return 't%d\t%s\t%s\n' % (i, put('%s%d_1.fastq' % (prefix, i), smp[0], z), put('%s%d_2.fastq' % (prefix, i), smp[1], z))
    base_lines = [line('a', i, smp, False) for i, smp in enumerate(samples)]
    t_lines = [line('b', i, smp, gz) for i, smp in enumerate(tsamples)]
    ctx.write('alist', ''.join(base_lines))
    ctx.write('blist', ''.join(t_lines[i] for i in perm))
    extra = ['--min-count', minc, '--min-qual', minq, '--qual-filter', rule]
    p1 = G.ska_build(ctx, ctx.path('fa'), ['-f', ctx.path('alist')], k, rcmode, extra=extra)
    p2 = G.ska_build(ctx, ctx.path('fb'), ['-f', ctx.path('blist')], k, rcmode, extra=extra)
    res.evals += 1
    detail = {'k': k, 'rc': rcmode, 'tr': tr, 'min_count': minc, 'min_qual': minq, 'rule': rule, 'samples': samples, 'transformed': tsamples, 'perm': perm}
    if p1.returncode != 0 or p2.returncode != 0:
        if (p1.returncode != 0) != (p2.returncode != 0):
            res.violate('C02:fastq:%s:one-fails' % tr, 'k=%d rc=%s reads, transformation %s: one build fails, the other succeeds' % (k, rcmode, tr), detail)
        else:
            res.count('both_refused')
        return res
    h1, t1 = G.nk(ctx, ctx.path('fa.skf'))
    h2, t2 = G.nk(ctx, ctx.path('fb.skf'))
    exp = {kk: [v[i] for i in perm] for kk, v in t1.items()}
    if t2 != exp or h2.get('names') != ['t%d' % i for i in perm]:
        diff = [(x, exp.get(x), t2.get(x)) for x in set(exp) | set(t2) if exp.get(x) != t2.get(x)]
        res.violate('C02:fastq:%s:differs' % tr, 'k=%d rc=%s reads (min-count %d, %s, min-qual %d), transformation %s changes the table: %s'
                    % (k, rcmode, minc, rule, minq, tr, diff[:3]), detail)
    else:
        res.count('rows_compared', len(t1))
        if t1:
            res.nontrivial.append(fingerprint([k, rcmode, 'fastq', desc['seed'], tr]))
    return res


def run_case(desc, ctx):
    if desc['kind'] == 'fastq':
        return run_fastq(desc, ctx)
    res = Result()
    k, rcmode, tr = desc['k'], desc['rc'], desc['tr']
    if desc['kind'] == 'many':
        r0 = random.Random(desc['seed'] ^ 0x3a)
        base = G.rseq(r0, 3 * k)
        samples = []
        for _ in range(r0.choice([20, 40, 70, 72, 80, 160])):
            t = list(base)
            for _j in range(r0.randint(0, 3)):
                t[r0.randrange(len(t))] = r0.choice('ACGT')
            samples.append([''.join(t)])
        res.count('many_sample_cases')
    else:
        samples = c01.gen_records(desc)
    if desc['kind'] not in ('multi', 'many') and tr in ('sampleperm', 'all'):
        # make it a multi-sample input so that a column permutation exists
        d2 = dict(desc)
        d2['seed'] ^= 0x77
        samples = samples + c01.gen_records(d2)
    rng = random.Random(desc['seed'] ^ 0xc02)
    dup_at = None
    if tr in ('sampleperm', 'all') and desc['kind'] != 'many' and len(samples) >= 2 and desc['seed'] % 5 == 0:
        # one sample given twice, side by side: still one column per input position
        j_ = rng.randrange(len(samples))
        samples = samples[:j_ + 1] + [list(samples[j_])] + samples[j_ + 1:]
        dup_at = j_ + 1
        res.count('sample_given_twice_side_by_side')
    res.count('tr:' + tr)
    res.see('k_rc', '%d/%s' % (k, 'rc' if rcmode else 'ss'))
    base_files = [G.write_fa(ctx.path('s%d.fa' % i), recs) for i, recs in enumerate(samples)]
    if dup_at is not None:
        base_files[dup_at] = base_files[dup_at - 1]          # literally the same path twice in a row
    tsamples, wrap, gz, perm = transform(rng, samples, tr, rcmode)
    t_files = [G.write_fa(ctx.path('t%d.fa' % i + ('.gz' if gz else '')), recs, wrap=wrap, gz=gz)
               for i, recs in enumerate(tsamples)]
    changed = (tsamples != samples) or wrap or gz or perm != list(range(len(samples)))
    for variant in (['rel', 'chk'] if desc.get('chk') else ['rel']):
        b = ctx.bins[variant]
        th = ['--threads', desc['threads']] if desc.get('threads') else []
        p1 = G.ska_build(ctx, ctx.path('a_' + variant), base_files, k, rcmode, binary=b, extra=th)
        # the transformed build takes its inputs from a file list with explicit names (t<i>), so that the
        # file-name-to-sample-name rule (which does not know .fa.gz) is not part of what is compared
        ctx.write('list.tsv', ''.join('t%d\t%s\n' % (i, t_files[i]) for i in perm))
        p2 = G.ska_build(ctx, ctx.path('b_' + variant), ['-f', ctx.path('list.tsv')], k, rcmode, binary=b, extra=th)
        if variant == 'chk':
            res.count('chk_runs')
            if 'overflow' in (p1.stderr + p2.stderr):
                res.count('chk_overflow_panics')
                continue
        else:
            res.evals += 1
        if p1.returncode != 0 or p2.returncode != 0:
            if (p1.returncode != 0) != (p2.returncode != 0):
                res.violate('C02:%s:one-fails' % tr,
                            'k=%d rc=%s transformation %s: one build fails, the other succeeds' % (k, rcmode, tr),
                            {'samples': samples, 'transformed': tsamples, 'stderr1': p1.stderr[-300:], 'stderr2': p2.stderr[-300:]})
            else:
                res.count('both_refused')
            continue
        try:
            h1, t1 = G.nk(ctx, ctx.path('a_%s.skf' % variant), binary=b)
            h2, t2 = G.nk(ctx, ctx.path('b_%s.skf' % variant), binary=b)
        except (G.NkFailed, ValueError) as e:
            res.violate('C02:%s:nk-failed' % tr, 'nk failed: %s' % e, {'samples': samples})
            continue
        ncol1 = len(next(iter(t1.values()))) if t1 else len(h1.get('names') or [])
        if ncol1 != len(samples) or len(h1.get('names') or []) != len(samples):
            # not one column per input position (e.g. an input given twice was taken once)
            res.violate('C02:%s:columns' % tr, 'k=%d rc=%s: %d input samples, but the build has %d sample columns (names %s)'
                        % (k, rcmode, len(samples), ncol1, h1.get('names')), {'samples': samples, 'files': base_files})
            continue
        exp = {kk: [v[i] for i in perm] for kk, v in t1.items()}
        exp_names = ['t%d' % i for i in perm]
        if t2 != exp or h2.get('names') != exp_names or h1.get('k-mers') != h2.get('k-mers'):
            diff = [(x, exp.get(x), t2.get(x)) for x in set(exp) | set(t2) if exp.get(x) != t2.get(x)]
            res.violate('C02:%s:differs' % tr,
                        'k=%d rc=%s transformation %s changes the table: %s names=%s' % (k, rcmode, tr, diff[:3], h2.get('names')),
                        {'samples': samples, 'transformed': tsamples, 'wrap': wrap, 'gz': gz, 'perm': perm})
        elif variant == 'rel':
            res.count('rows_compared', len(t1))
            if changed and t1:
                res.nontrivial.append(fingerprint([k, rcmode, samples, tr, tsamples, wrap, gz, perm]))
    if res.sample is None and tr == 'all':
        res.sample = {'k': k, 'rc': rcmode, 'transformation': tr, 'input': samples, 'transformed': tsamples,
                      'wrap': wrap, 'gzip': gz, 'sample_order': perm}
    return res
