"""C03 - Reference-free alignment recovers exactly the true SNP columns (oracle = planted truth)."""
import random

from .. import gen as G
from .. import model as M
from ..run import Result, fingerprint

ID = 'C03'
LEVEL = 'exploration'
BUDGET = {'quick': 150, 'thorough': 1500}
CHUNK = 4
RULE = ('Cases: an ancestor of 1..3 contigs (a few per run of 45..200 kb with thousands of sites); substitution sites more than (k-1)/2 apart and at least (k-1)/2 from contig '
        'ends (a share of sites at exactly the minimum distances, and contigs of exactly k or k+1 bases whose only site sits at the centre); 2..10 samples, 2..4 alleles per site; contigs written '
        'in random order and orientation per sample, some samples with lower-case stretches.  The generator checks admissibility (every canonical split k-mer over '
        'the union of all sample sequences occurs at one locus, none self-complementary).  `ska align --min-freq 1` must '
        'give exactly the planted columns (each up to whole-column complement), equal lengths, names in input order (sample names are drawn so that input order is usually not sorted order; 30% of the runs write with -o over an existing, longer file).  '
        'Routes: `ska build -k K` + `ska align x.skf` for all odd k, and `ska align <fastas>` (k=17), with --threads 1/2/4/8 (10 samples with > 1 thread take the parallel build path).  Non-trivial: at least '
        'one planted site; distinct = distinct (k, sample sequences).')
ASSUMPTIONS = ['the planted truth is the oracle; no model of ska is involved',
               'uniqueness is required over the union of samples, see DESIGN.md section 8']
REQUIRED = {t: ['route:skf', 'route:fasta', 'sites_at_min_gap', 'sites_at_min_end', 'multi_contig', 'contigs_of_length_k_or_k+1', 'parallel_build_path',
                'names_not_in_sorted_order', 'output_to_existing_longer_file', 'cases_with_1024+_sites', 'cases_with_lower_case_stretches', 'cases_with_windowless_contigs_among_the_records', 'samples_spread_over_two_files', 'parallel_builds_with_two_file_samples', 'single_strand_builds', 'sites_between_two_runs_of_A'] for t in ('quick', 'thorough')}


def builds(tier):
    return ['rel', 'chk']


def plan(tier, seed, rng, scale):
    descs = []
    for k in G.ALL_K[1:]:          # k = 7..63 forced once each
        descs.append({'k': k, 'route': 'skf', 'seed': rng.getrandbits(32)})
    n = int((10000 if tier == 'quick' else 60000) * scale)
    for i in range(n):
        if i % 6 == 0:
            descs.append({'k': 17, 'route': 'fasta', 'seed': rng.getrandbits(32)})
        else:
            descs.append({'k': rng.choice(G.ALL_K[1:]) if rng.random() < 0.9 else 5, 'route': 'skf', 'seed': rng.getrandbits(32)})
    for i in range(int((5 if tier == 'quick' else 40) * max(scale, 0.25))):
        descs.insert(30 + 11 * i, {'k': rng.choice([21, 31, 33]), 'route': 'skf', 'seed': rng.getrandbits(32),
                                   'large': rng.choice([60000, 100000] if tier == 'quick' else [60000, 100000, 200000])})
    for i, d in enumerate(descs):
        d['chk'] = (i % 8 == 0) and not d.get('large')
    return descs


def admissible(ss, k):
    h = (k - 1) // 2
    loc = {}
    for s in ss:
        for ci, c in enumerate(s):
            for i in range(len(c) - k + 1):
                w = c[i:i + k]
                sk, _m, flip, pal = M.canon_split(w, True)
                if pal:
                    return False
                # one locus AND one orientation: two samples whose windows at the same place differ at both ends can
                # store the same arms from opposite strands (inner k-2 bases with self-complementary arms)
                if loc.setdefault(sk, (ci, i, flip)) != (ci, i, flip):
                    return False
    return True


def gen(rng, k, large=None, polyA=False):
    h = (k - 1) // 2
    for _attempt in range(400 if not large else 6):
        ns = rng.choice([2, 3, 4, 5, 6, 7, 8, 9, 10, 10, 10])
        ncont = rng.randint(1, 3)
        maxlen = 6 * k if k > 7 else 4 * k
        if large:
            # thousands of sites: output passes beyond their small-input paths (blocks of 1024 / 4096 columns, ...)
            ns, ncont, maxlen = rng.randint(2, 4), rng.randint(1, 2), large
        if k == 5:
            ncont, maxlen = 1, 14       # unique split 5-mers are scarce: 256 arm pairs
        contigs = [G.rseq(rng, rng.randint(k + 2 if not large else 3 * large // 4, maxlen)) for _ in range(ncont)]
        if k > 5 and rng.random() < 0.3:
            # a contig of exactly k (or k+1) bases: its centre is exactly (k-1)/2 from both ends
            contigs.insert(rng.randrange(len(contigs) + 1), G.rseq(rng, k + rng.choice([0, 0, 1])))
        samples = [[list(c) for c in contigs] for _ in range(ns)]
        truth = []
        stats = {'min_gap': 0, 'min_end': 0}
        for ci, c in enumerate(contigs):
            first = rng.random() < 0.3
            p = h if first else h + rng.randint(0, h)
            if len(c) <= k + 1:
                first, p = True, h
                stats['short_contig'] = stats.get('short_contig', 0) + 1
            if first:
                stats['min_end'] += 1
            while p <= len(c) - 1 - h:
                if rng.random() < 0.7:
                    if p == len(c) - 1 - h:
                        stats['min_end'] += 1
                    alts = [b for b in 'ACGT' if b != c[p]]
                    alle = [c[p]] + rng.sample(alts, rng.choice([1, 1, 2, 3]))
                    while True:
                        asg = [rng.choice(alle) for _ in range(ns)]
                        if len(set(asg)) > 1:
                            break
                    for s in range(ns):
                        samples[s][ci][p] = asg[s]
                    truth.append(''.join(asg))
                    step = h + 1 if rng.random() < 0.35 else h + 1 + rng.randint(1, k)
                    if step == h + 1:
                        stats['min_gap'] += 1
                    p += step
                else:
                    p += 1 + rng.randint(0, k)
        if polyA and k > 5 and not large:
            # one more contig whose only site sits between two runs of exactly h A's (both arms of its window encode as zero)
            L_ = G.rseq(rng, h + 1)[:-1] + rng.choice('CGT')
            R_ = rng.choice('CGT') + G.rseq(rng, h + 1)[1:]
            alle = rng.sample('CGT', rng.choice([2, 3]))
            while True:
                asg = [rng.choice(alle) for _ in range(ns)]
                if len(set(asg)) > 1:
                    break
            contigs.append(L_ + 'A' * h + asg[0] + 'A' * h + R_)
            for s_ in range(ns):
                samples[s_].append(list(L_ + 'A' * h + asg[s_] + 'A' * h + R_))
            truth.append(''.join(asg))
            stats['polyA'] = 1
        ss = [[''.join(c) for c in s] for s in samples]
        if truth and admissible(ss, k):
            return contigs, ss, truth, stats
    return None


def run_case(desc, ctx):
    res = Result()
    k = desc['k']
    rng = random.Random(desc['seed'])
    g = gen(rng, k, desc.get('large'), polyA=(desc['seed'] % 5 == 2 or desc['seed'] % 11 == 3))
    if g is None:
        res.count('generator_gave_up')
        return res
    contigs, ss, truth, stats = g
    ns = len(ss)
    files = []
    # sample names whose input order is usually not their sorted order (s2, s10, b7, ...): a run that lists or
    # stores samples in any order other than the one given pairs rows with the wrong sample
    pool = ['%s%d' % (c, n) for c in 'sbz' for n in range(0, 31)] + ['GCF_%04d.2' % n for n in range(8)] + ['iso.v%d.1' % n for n in range(4)]
    names_exp = rng.sample(pool, ns)
    if names_exp != sorted(names_exp):
        res.count('names_not_in_sorted_order')
    lower_used = False
    short_used = False
    file_recs = []
    # a fifth of the stored-file cases are single-strand builds of samples whose contigs all come in the orientation of the ancestor
    single_strand = desc['route'] == 'skf' and desc['seed'] % 5 == 2
    if single_strand:
        res.count('single_strand_builds')
    for i, s in enumerate(ss):
        order = list(range(len(s)))
        rng.shuffle(order)
        recs = [s[j] if (single_strand or rng.random() < 0.5) else M.rc(s[j]) for j in order]
        if rng.random() < 0.3:
            # a contig without any window (shorter than k, or broken by N) somewhere among the records of the file
            recs.insert(rng.randrange(len(recs) + 1), rng.choice([G.rseq(rng, rng.randint(1, k - 1)), G.rseq(rng, k // 2) + 'N' + G.rseq(rng, k // 2)]))
            short_used = True
        if rng.random() < 0.3:
            # soft-masked (lower-case) stretches, in some samples only
            j_ = rng.randrange(len(recs))
            a_ = rng.randrange(len(recs[j_]))
            b_ = min(len(recs[j_]), a_ + rng.randint(1, 3 * k))
            recs[j_] = recs[j_][:a_] + recs[j_][a_:b_].lower() + recs[j_][b_:]
            lower_used = True
        files.append(G.write_fa(ctx.path(names_exp[i] + '.fa'), recs, wrap=rng.choice([0, 0, 60])))
        file_recs.append(recs)
    # a third of the stored files are built from a file list in which samples with several contigs are spread over two FASTA files
    listfile = None
    if desc['route'] == 'skf' and desc['seed'] % 3 == 0:
        lines_ = []
        for i, recs in enumerate(file_recs):
            if len(recs) >= 2:
                c_ = rng.randint(1, len(recs) - 1)
                lines_.append('%s\t%s\t%s\n' % (names_exp[i], G.write_fa(ctx.path(names_exp[i] + '_a.fa'), recs[:c_]), G.write_fa(ctx.path(names_exp[i] + '_b.fa'), recs[c_:])))
            else:
                lines_.append('%s\t%s\n' % (names_exp[i], files[i]))
        if any(l.count('\t') == 2 for l in lines_):
            listfile = ctx.write('samples.list', ''.join(lines_))
            res.count('samples_spread_over_two_files')
    to_file = rng.random() < 0.3
    if lower_used:
        res.count('cases_with_lower_case_stretches')
    if short_used:
        res.count('cases_with_windowless_contigs_among_the_records')
    threads = rng.choice([1, 1, 2, 4, 8])
    res.see('threads', threads)
    if ns >= 10 and threads > 1:
        res.count('parallel_build_path')
        if listfile:
            res.count('parallel_builds_with_two_file_samples')
    exp = sorted(M.canon_col(c) for c in truth)
    res.count('route:' + desc['route'])
    res.see('k', k)
    res.see('nsamples', ns)
    for variant in (['rel', 'chk'] if desc.get('chk') else ['rel']):
        b = ctx.bins[variant]
        if desc['route'] == 'skf':
            oname = 'o' if desc['seed'] % 4 else 'run.k%d' % k            # a quarter of the stored files carry a dot in their prefix
            p = G.ska_build(ctx, ctx.path(oname), ['-f', listfile] if listfile else files, k, not single_strand, binary=b, extra=['--threads', threads])
            if p.returncode != 0:
                if variant == 'chk' and 'overflow' in p.stderr:
                    res.count('chk_overflow_panics')
                    continue
                res.violate('C03:build-failed', 'k=%d: build failed: %s' % (k, p.stderr[-200:]), {'samples': ss})
                continue
            names, seqs, pa = G.align_output(ctx, [ctx.path(oname + '.skf'), '--min-freq', '1'], binary=b, stale_out=to_file)
        else:
            names, seqs, pa = G.align_output(ctx, files + ['--min-freq', '1', '--threads', threads], binary=b, stale_out=to_file)
        if to_file:
            res.count('output_to_existing_longer_file')
        if variant == 'chk':
            res.count('chk_runs')
            if names is None and 'overflow' in pa.stderr:
                res.count('chk_overflow_panics')
                continue
        else:
            res.evals += 1
        if names is None:
            res.violate('C03:align-failed', 'k=%d route=%s: align failed: %s' % (k, desc['route'], pa.stderr[-200:]), {'samples': ss})
            continue
        got = sorted(M.canon_col(c) for c in M.columns(seqs))
        bad = []
        if got != exp:
            bad.append('columns differ: missing=%s extra=%s' % ([c for c in exp if c not in got][:3], [c for c in got if c not in exp][:3]))
        if names != names_exp:
            bad.append('names %s' % names)
        if len(set(map(len, seqs))) > 1:
            bad.append('unequal lengths')
        if bad:
            res.violate('C03:%s:columns' % desc['route'],
                        'k=%d ns=%d route=%s (%s): %s' % (k, ns, desc['route'], variant, '; '.join(bad)),
                        {'contigs': contigs, 'samples': ss, 'truth': truth, 'got': got})
    res.count('planted_sites', len(truth))
    if len(truth) > 1024:
        res.count('cases_with_1024+_sites')
        res.see('large_sites', len(truth))
    res.count('sites_between_two_runs_of_A', stats.get('polyA', 0))
    res.count('sites_at_min_gap', stats['min_gap'])
    res.count('sites_at_min_end', stats['min_end'])
    res.count('contigs_of_length_k_or_k+1', stats.get('short_contig', 0))
    if len(contigs) > 1:
        res.count('multi_contig')
    res.nontrivial.append(fingerprint([k, ss]))
    if res.sample is None:
        res.sample = {'k': k, 'route': desc['route'], 'ancestor': contigs, 'samples': ss, 'true_columns': truth}
    return res
