"""C17 - ska lo SNP calls are real, complete for isolated SNPs, and well formed."""
import os
import random
from fractions import Fraction

from .. import gen as G
from .. import model as M
from ..run import Result, fingerprint, Inconclusive

ID = 'C17'
LEVEL = 'exploration'
BUDGET = {'quick': 200, 'thorough': 2400}
CHUNK = 2
RULE = ('Cases: an ancestor with substitution sites >= 2k apart and >= 2k from the ends (reference-free mode: one case in eight with sites only k-1..2k-1 from the ends, down to a sequence of exactly 2k-1 bases), 3..10 samples, 2..4 alleles per site (one case in a hundred: 5..7 consecutive sites that all carry all four bases), output prefixes with and without dots, -n at its default, 0, 2 and 10, '
        'samples written in random orientation; the generator checks that every (k-1)-mer over the union of the sample sequences '
        'occurs at one locus on both strands and none is self-complementary.  Reference-free (k in {7,9,11,15,17,21,31,33}): the '
        'column multiset of <out>_snps.fas must equal the planted truth up to order and whole-column complement, names in input '
        'order.  With -r (k>=15; reference = ancestor, its reverse complement, or one of the samples; a share with an N run away from the sites; the reference given as plain or wrapped FASTA, gzipped, or gzipped in several members): every VCF record at a '
        'planted coordinate with the true alleles on the reference strand, REF = reference base, pseudo-genomes of reference '
        'length agreeing with every sample at every called position (how many planted sites are reported is recorded, not judged: the statement is about reported SNPs there).  A fifth of the runs write to a prefix that already holds the output of an earlier, larger run.  Threads 1..8, with and without '
        'seeded jitter at the hook points, -m in {0.1,0.2,0.4}.  Well-formedness (equal lengths, >= 2 distinct A/C/G/T per column, '
        'missing fraction <= -m) is also checked on clustered-variant / indel / repeat inputs.  Non-trivial: >= 1 planted site; '
        'distinct = distinct (k, samples, mode).')
ASSUMPTIONS = ['the planted truth is the oracle; well-formedness is a direct predicate on the output',
               'union-of-samples uniqueness (DESIGN.md section 8); sites at least 2k from the sequence ends']
REQUIRED = {t: ['mode:free', 'mode:ref', 'mode:wf', 'ref:ancestor', 'ref:revcomp', 'ref:sample', 'threads>1', 'jitter_runs',
                'sites_called', 'multiallelic_sites', 'wf_columns_checked', 'vcf_records_checked', 'reference_with_N', 'runs_over_existing_output', 'reference_route:plain', 'reference_route:gz', 'reference_route:gz-multi', 'runs_of_four_allelic_sites', 'dotted_output_prefix', 'runs_with_-n_0', 'sites_k-1_from_the_ends', 'runs_with_-v', 'reference_crlf_wrapped'] for t in ('quick', 'thorough')}
FREE_K = [7, 9, 11, 15, 17, 21, 31, 33]
REF_K = [15, 17, 21, 31, 33]


def builds(tier):
    return ['rel']


def plan(tier, seed, rng, scale):
    descs = []
    for k in FREE_K:
        descs.append({'mode': 'free', 'k': k, 'seed': rng.getrandbits(32)})
    for k in REF_K:
        for rk in ('ancestor', 'revcomp', 'sample'):
            descs.append({'mode': 'ref', 'k': k, 'refkind': rk, 'seed': rng.getrandbits(32)})
    n = int((6000 if tier == 'quick' else 50000) * scale)
    for i in range(n):
        r = i % 10
        if r < 5:
            descs.append({'mode': 'free', 'k': rng.choice(FREE_K), 'seed': rng.getrandbits(32)})
        elif r < 8:
            descs.append({'mode': 'ref', 'k': rng.choice(REF_K), 'refkind': rng.choice(['ancestor', 'ancestor', 'revcomp', 'sample']),
                          'seed': rng.getrandbits(32)})
        else:
            descs.append({'mode': 'wf', 'k': rng.choice([15, 17, 21, 31]), 'seed': rng.getrandbits(32)})
    for i in range(int((60 if tier == 'quick' else 500) * scale)):
        descs.insert(rng.randrange(len(descs)), {'mode': rng.choice(['free', 'ref']), 'k': rng.choice([15, 17, 21]), 'refkind': 'ancestor', 'all4': True, 'seed': rng.getrandbits(32)})
    for d in descs:
        d['n'] = rng.choice([None, None, None, '0', '2', '10'])
        d['threads'] = rng.choice([1, 1, 2, 3, 4, 8])
        d['jitter'] = rng.getrandbits(16) if rng.random() < 0.3 else None
        d['m'] = rng.choice(['0.1', '0.1', '0.2', '0.4'])
    return descs


def union_unique(seqs, k1):
    """Every k1-mer over the union of the sequences maps to one locus (position on its strand); none self-complementary."""
    loc = {}
    for t in seqs:
        for i in range(len(t) - k1 + 1):
            w = t[i:i + k1]
            r = M.rc(w)
            if w == r:
                return False
            if loc.setdefault(w, i) != i or loc.setdefault(r, -i - 1) != -i - 1:
                return False
    return True


def gen_snps(rng, k, nsnp, ns, all4=False, margin=None):
    for _ in range(300):
        mg = 2 * k if margin is None else margin
        L = 2 * mg + (nsnp - 1) * (2 * k + rng.randint(0, k)) + (rng.randint(0, 3 * k) if margin is None else 1)
        anc = G.rseq(rng, L)
        sites = []
        p = mg + (rng.randint(0, k // 2) if margin is None else 0)
        for _i in range(nsnp):
            if p >= L - mg:
                break
            sites.append(p)
            p += 2 * k + rng.randint(0, k)
        if not sites:
            continue
        samples = [list(anc) for _ in range(ns)]
        truth = {}
        for s in sites:
            alts = [b for b in 'ACGT' if b != anc[s]]
            nall = 4 if all4 and ns >= 4 else rng.choice([2, 2, 2, 3, 4])
            alleles = [anc[s]] + rng.sample(alts, nall - 1)
            while True:
                assign = [rng.choice(alleles) for _ in range(ns)]
                if len(set(assign)) >= (nall if all4 and ns >= 4 else 2):
                    break
            for i in range(ns):
                samples[i][s] = assign[i]
            truth[s] = ''.join(assign)
        ss = [''.join(x) for x in samples]
        if union_unique(ss, k - 1):
            return anc, ss, truth
    return None


def mutate(rng, s, rate):
    out = []
    for c in s:
        r = rng.random()
        if r < rate * 0.7:
            out.append(rng.choice('ACGT'))
        elif r < rate * 0.85:
            pass
        elif r < rate:
            out.append(c)
            out.append(G.rseq(rng, rng.randint(1, 5)))
        else:
            out.append(c)
    return ''.join(out)


def gen_clustered(rng, k):
    anc = G.rseq(rng, rng.randint(600, 2200))
    if rng.random() < 0.5:
        a = rng.randrange(len(anc) - 200)
        anc = anc + anc[a:a + rng.randint(40, 200)] + G.rseq(rng, 100)
    if rng.random() < 0.4:
        # a short segment present three times in the reference (positioning votes then have several losing offsets)
        a = rng.randrange(len(anc) - 80)
        seg = anc[a:a + rng.randint(k + 9, k + 40)]
        anc = anc + G.rseq(rng, 60) + seg + G.rseq(rng, 60) + seg + G.rseq(rng, 60)
    ns = rng.randint(3, 8)
    vars_ = [mutate(rng, anc, 0.004) for _ in range(3)]
    if rng.random() < 0.6:
        # pairs of substitutions at exact distances around k (one variant group spanning two SNPs that share k-mers)
        for vi in range(len(vars_)):
            v = list(vars_[vi])
            for _ in range(rng.randint(1, 3)):
                d = rng.choice([k - 2, k - 1, k - 1, k, k + 1, rng.randint(1, k)])
                a = rng.randrange(2 * k, max(2 * k + 1, len(v) - 3 * k - d))
                if a + d < len(v):
                    for q in (a, a + d):
                        v[q] = {'A': 'C', 'C': 'A', 'G': 'T', 'T': 'G'}[v[q]]
            vars_[vi] = ''.join(v)
    return anc, [mutate(rng, rng.choice(vars_), 0.002) for _ in range(ns)]


def read_fasta_file(path):
    try:
        return M.parse_fasta(open(path).read())
    except OSError:
        return None, None


def well_formed(res, sig, seqs, m, detail):
    """Direct predicate on the SNP alignment."""
    if not seqs:
        return
    if len(set(map(len, seqs))) > 1:
        res.violate(sig + ':unequal-lengths', 'SNP alignment sequences have lengths %s' % sorted(set(map(len, seqs))), detail)
        return
    n = len(seqs)
    limit = Fraction(m) * n
    for c in M.columns(seqs):
        res.count('wf_columns_checked')
        acgt = set(x for x in c if x in 'ACGT')
        missing = sum(1 for x in c if x not in 'ACGT')
        if len(acgt) < 2:
            res.violate(sig + ':constant-column', 'column %s has fewer than two distinct A/C/G/T alleles' % c, detail)
            return
        if missing > limit:
            res.violate(sig + ':missing', 'column %s has %d of %d samples missing, -m %s' % (c, missing, n, m), detail)
            return


def lo_env(desc, ctx):
    env = {}
    if desc.get('jitter') is not None:
        env['SKA_VERIF_JITTER'] = '%d:%d' % (desc['jitter'], 300)
    return env or None


def run_case(desc, ctx):
    res = Result()
    k, mode = desc['k'], desc['mode']
    rng = random.Random(desc['seed'])
    ns = rng.randint(3, 10)
    res.count('mode:' + mode)
    res.see('k', k)
    res.see('threads', desc['threads'])
    if desc['threads'] > 1:
        res.count('threads>1')
    if desc.get('jitter') is not None:
        res.count('jitter_runs')
    if mode == 'wf':
        anc, ss = gen_clustered(rng, k)
        truth = None
    else:
        if desc.get('all4'):
            # runs of consecutive sites that all carry all four bases: the number of candidate paths grows as 4^sites
            ns = max(ns, rng.randint(6, 10))
            g = gen_snps(rng, k, rng.randint(5, 7), ns, all4=True)
            res.count('runs_of_four_allelic_sites')
        elif mode == 'free' and desc['seed'] % 8 == 1:
            # sites as close to the ends of the common sequence as k-1 bases (a sequence of exactly 2k-1 bases with its one site in
            # the middle): the statement asks for no distance from the ends, and the pinned tree needs none beyond k-1
            g = gen_snps(rng, k, rng.randint(1, 3), ns, margin=rng.choice([k - 1, k - 1, k, k + 1, 2 * k - 1]))
            res.count('sites_k-1_from_the_ends')
        else:
            g = gen_snps(rng, k, rng.randint(1, 6), ns)
        if g is None:
            res.count('generator_gave_up')
            return res
        anc, ss, truth = g
    ns = len(ss)
    files = []
    pool = ['zeta', 'alpha', 'Mu', 'beta9', 'x10', 'x2', 'omega', 'delta', 'B_7', 'kappa', 'a1', 'Z']
    r3 = random.Random(desc['seed'] ^ 0xabc)
    snames = r3.sample(pool, ns) if desc['seed'] % 2 else ['s%d' % i for i in range(ns)]
    for i, s in enumerate(ss):
        files.append(G.write_fa(ctx.path('%s.fa' % snames[i]), [s if rng.random() < 0.5 else M.rc(s)]))
    p = G.ska_build(ctx, ctx.path('o'), files, k, True)
    if p.returncode != 0:
        raise Inconclusive('build failed: ' + p.stderr[-200:])
    # output prefix with or without dots in its last component; -n (indel k-mers allowed inside a path) at its default, at 0 and above
    OUT = 'out' if desc['seed'] % 3 else 'res.k%d.v1' % k
    if OUT != 'out':
        res.count('dotted_output_prefix')
    args = ['lo', ctx.path('o.skf'), ctx.path(OUT), '--threads', desc['threads'], '-m', desc['m']] + (['-n', desc['n']] if desc.get('n') is not None else [])
    if desc.get('n') == '0':
        res.count('runs_with_-n_0')
    if desc['seed'] % 5 == 1:
        args = args + ['-v']
        res.count('runs_with_-v')
    refseq = None
    if mode in ('ref', 'wf'):
        if mode == 'wf':
            refseq = anc
        elif desc['refkind'] == 'ancestor':
            refseq = anc
        elif desc['refkind'] == 'revcomp':
            refseq = M.rc(anc)
        else:
            refseq = ss[0]
        if mode == 'ref' and rng.random() < 0.3:
            # an N run in the reference, at least 2k away from every planted site: coordinates must not shift
            L_ = len(refseq)
            sites_ref = [(L_ - 1 - s_) if desc['refkind'] == 'revcomp' else s_ for s_ in truth]
            for _try in range(20):
                a_ = rng.randrange(L_)
                n_ = rng.randint(1, 12)
                if all(abs(x - q) > 2 * k for x in sites_ref for q in (a_, a_ + n_)) and a_ + n_ < L_:
                    refseq = refseq[:a_] + 'N' * n_ + refseq[a_ + n_:]
                    res.count('reference_with_N')
                    break
        if mode == 'ref' or rng.random() < 0.5:
            # the reference as plain text (wrapped or not), gzipped, or gzipped in several members (bgzip style, cat a.gz b.gz)
            import gzip
            w_ = rng.choice([0, 0, 60])
            txt = '>R\n%s\n' % ('\n'.join(refseq[i:i + w_] for i in range(0, len(refseq), w_)) if w_ else refseq)
            route = rng.choice(['plain', 'plain', 'gz', 'gz-multi'])
            if desc['seed'] % 4 == 1:
                # CRLF line endings: the carriage returns are not part of the sequence, coordinates must not move
                txt = txt.replace('\n', '\r\n')
                res.count('reference_crlf' + ('_wrapped' if w_ else ''))
            if route == 'plain':
                refpath = ctx.write('ref.fa', txt)
            else:
                cuts = [0, len(txt)] if route == 'gz' else sorted({0, len(txt), rng.randrange(len(txt)), rng.randrange(len(txt))})
                refpath = ctx.write('ref.fa.gz', b''.join(gzip.compress(txt[a_:b_].encode()) for a_, b_ in zip(cuts, cuts[1:])))
            res.count('reference_route:' + route)
            args += ['-r', refpath]
        else:
            refseq = None
    if desc['seed'] % 5 == 0:
        # an earlier run with more samples and more variants wrote to the same prefix
        r2 = random.Random(desc['seed'] ^ 0x51)
        g2 = gen_snps(r2, k, 8, 10)
        if g2 is not None:
            f2 = [G.write_fa(ctx.path('prev%d.fa' % i), [s_]) for i, s_ in enumerate(g2[1])]
            if G.ska_build(ctx, ctx.path('prev'), f2, k, True).returncode == 0:
                pargs = ['lo', ctx.path('prev.skf'), ctx.path(OUT), '-m', '0.4']
                if '-r' in args:
                    ctx.write('prevref.fa', '>R\n%s\n' % (g2[0] + G.rseq(r2, 300)))
                    pargs += ['-r', ctx.path('prevref.fa')]
                if ctx.sh(ctx.ska, *pargs).returncode == 0:
                    res.count('runs_over_existing_output')
    p = ctx.sh(ctx.ska, *args, env=lo_env(desc, ctx))
    res.evals += 1
    detail = {'k': k, 'mode': mode, 'ancestor': anc, 'samples': ss, 'truth': truth, 'threads': desc['threads'], 'jitter': desc.get('jitter'),
              'refkind': desc.get('refkind'), 'm': desc['m']}
    sig = 'C17:' + mode
    names, seqs = read_fasta_file(ctx.path(OUT + '_snps.fas'))
    if mode == 'wf':
        if p.returncode != 0:
            res.count('wf_lo_exit_nonzero')       # e.g. no variant at all: nothing to judge
            return res
        if names is None:
            res.violate(sig + ':no-output', 'lo exited 0 without writing the SNP alignment', detail)
            return res
        well_formed(res, sig, seqs, desc['m'], detail)
        if names != snames:
            res.violate(sig + ':names', 'names %s' % names, detail)
        if seqs and seqs[0]:
            res.nontrivial.append(fingerprint(['wf', k, ss]))
        return res
    if p.returncode != 0 or names is None:
        res.violate(sig + ':failed', 'k=%d ns=%d threads=%d: lo failed or wrote no alignment although %d isolated SNPs are planted: %s'
                    % (k, ns, desc['threads'], len(truth), p.stderr.strip()[-200:]), detail)
        return res
    well_formed(res, sig, seqs, desc['m'], detail)
    got = sorted(M.canon_col(c) for c in M.columns(seqs))
    exp = sorted(M.canon_col(c) for c in truth.values())
    bad = []
    if mode == 'free':
        if got != exp:
            bad.append('columns %s, planted %s' % (got, exp))
    else:
        # with a reference the statement is about reported SNPs: each must be a planted one, none twice.  A SNP that
        # cannot be positioned (fewer than 10 anchoring k-mers, e.g. when no sample carries the reference allele) is
        # left out by design; how many planted sites are reported is recorded, not judged.
        from collections import Counter
        extra = Counter(got) - Counter(exp)
        if extra:
            bad.append('reported columns %s are not planted ones %s' % (sorted(extra.elements()), exp))
        res.count('ref_sites_planted', len(exp))
        res.count('ref_sites_reported', len(got))
    if names != snames:
        bad.append('names %s' % names)
    if bad:
        res.violate(sig + ':columns', 'k=%d ns=%d threads=%d jitter=%s: %s' % (k, ns, desc['threads'], desc.get('jitter'), '; '.join(bad)), detail)
        return res
    res.count('sites_called', len(got))
    res.count('multiallelic_sites', sum(1 for c in truth.values() if len(set(c)) > 2))
    if mode == 'ref':
        res.count('ref:' + desc['refkind'])
        L = len(refseq)
        isrc = desc['refkind'] == 'revcomp'
        try:
            vlines = [l.rstrip('\n').split('\t') for l in open(ctx.path(OUT + '_snps.vcf')) if not l.startswith('#')]
            hdr = [l for l in open(ctx.path(OUT + '_snps.vcf')) if l.startswith('#CHROM')]
            pg_names, pg = M.parse_fasta(open(ctx.path(OUT + '_pseudo_genomes.fas')).read())
        except OSError as e:
            res.violate(sig + ':missing-file', 'reference mode output file missing: %s' % e, detail)
            return res
        rbad = []
        if not hdr or hdr[0].rstrip('\n').split('\t')[9:] != names:
            rbad.append('VCF sample columns differ from the sample names')
        if pg_names != names:
            rbad.append('pseudo-genome names %s' % pg_names)
        if any(len(x) != L for x in pg):
            rbad.append('pseudo-genome lengths %s, reference %d' % (sorted(set(map(len, pg))), L))
        seen = set()
        for f in vlines:
            pos = int(f[1]) - 1
            site = (L - 1 - pos) if isrc else pos
            tr = truth.get(site)
            if tr is None:
                rbad.append('record at %d is not a planted site' % (pos + 1))
                continue
            seen.add(site)
            want = M.comp_col(tr) if isrc else tr
            al = [f[3]] + (f[4].split(',') if f[4] else [])
            try:
                dec = ''.join('-' if g == '.' else al[int(g)] for g in f[9:])
            except (ValueError, IndexError):
                dec = '?'
            if dec != want:
                rbad.append('record at %d decodes to %s, truth on the reference strand is %s' % (pos + 1, dec, want))
            if f[3] != refseq[pos]:
                rbad.append('REF %s at %d, reference base %s' % (f[3], pos + 1, refseq[pos]))
            if f[0] != 'R' or f[8] != 'GT':
                rbad.append('CHROM/FORMAT %s %s' % (f[0], f[8]))
            for i in range(ns):
                if len(pg[i]) == L and pg[i][pos] != want[i]:
                    rbad.append('pseudo-genome of %s disagrees with the sample at %d' % (names[i], pos + 1))
                    break
            res.count('vcf_records_checked')
        if len(vlines) != len(got):
            rbad.append('%d VCF records for %d alignment columns' % (len(vlines), len(got)))
        if rbad:
            res.violate(sig + ':vcf', 'k=%d ns=%d ref=%s threads=%d: %s' % (k, ns, desc['refkind'], desc['threads'], '; '.join(rbad[:4])), detail)
            return res
    res.nontrivial.append(fingerprint([mode, k, ss, desc.get('refkind')]))
    if res.sample is None:
        res.sample = {'k': k, 'mode': mode, 'refkind': desc.get('refkind'), 'ancestor_length': len(anc), 'samples': ns,
                      'planted': {str(s): c for s, c in truth.items()}, 'threads': desc['threads']}
    return res
