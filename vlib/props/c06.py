"""C06 - Align emits exactly the k-mer columns that pass the requested filters."""
import random

from .. import gen as G
from .. import model as M
from ..run import Result, fingerprint

ID = 'C06'
LEVEL = 'exploration'
BUDGET = {'quick': 150, 'thorough': 1800}
CHUNK = 1
RULE = ('Cases: arbitrary sample-by-k-mer tables (1..12 samples x 1..60 rows, plus a few per run of 3..45 samples x 1500..12000 rows one of 2..3 samples x 70000 rows and three of 256..300 samples holding rows of every presence count 1..n; a ninth of the small files has one sample whose k-mers were all weeded away (it stays a sample of the file); row styles: all bases, near-constant, all 15 '
        'codes and gaps, one ambiguous among constant, two alleles with gaps; forced rows: all-equal, all-equal-but-one-gap, '
        'only-ambiguous, one-unambiguous-rest-ambiguous, every presence count 1..n) built through `ska build` and verified '
        'by read-out.  For each table the full grid 4 filters x filter-ambig-as-missing x ambig-mask x no-gap-only-sites is '
        'run at min-freq values j/n (j=0..n), four-digit decimals just below and above every j/n, and 0.9/0.5/0.7/0.3/0.6/0.35; the column multiset of `ska align` is compared with the '
        'row predicate evaluated in exact rational arithmetic, and stricter settings must give sub-multisets of laxer ones.  A third of the tables send every alignment to the same `-o` file (written over again and again); a quarter of the files first pass through `ska weed --filter-ambig-as-missing` with a one-sample threshold (stored files with a history).  '
        'Non-trivial: the table has rows that pass and rows that fail under the setting; distinct = distinct (table, setting).')
ASSUMPTIONS = ['min-freq is passed as a short decimal string; the oracle uses the exact rational of that string',
               'tables are constructed through ska build (one record arm+base+arm+N per cell), verified before judging']
FILTERS = ['no-filter', 'no-const', 'no-ambig', 'no-ambig-or-const']
REQUIRED = {t: ['filter:' + f for f in FILTERS] + ['rows_kept', 'rows_dropped', 'threshold_boundary_rows',
                                                   'submultiset_relations_checked', 'float_sensitive_thresholds', 'pretreated_files', 'aligns_to_reused_output_file', 'large_tables', 'tables_over_65536_rows', 'alignments_over_65536_columns', 'tables_of_256+_samples', 'files_with_a_sample_without_kmers', 'runs_with_default_options']
            for t in ('quick', 'thorough')}


def _float_pairs():
    import math
    from fractions import Fraction
    out = []
    for n in range(13, 41):
        for d in range(1, 100):
            f = ('0.%02d' % d).rstrip('0')
            x = Fraction(f) * n
            if x.denominator == 1 and math.ceil(float(f) * n) != x:
                out.append((n, f))
    return out


# (samples, min-freq) pairs whose product is an integer exactly but not in binary floating point, e.g. 25 x 0.28
FLOAT_PAIRS = _float_pairs()


def builds(tier):
    return ['rel', 'chk']


def plan(tier, seed, rng, scale):
    n = int((1000 if tier == 'quick' else 12000) * scale)
    descs = []
    for ns in range(1, 13):
        descs.append({'ns': ns, 'k': rng.choice([5, 7, 9, 15, 31, 33, 63]), 'seed': rng.getrandbits(32), 'full': True})
    for i in range(n):
        descs.append({'ns': rng.randint(1, 12), 'k': rng.choice([5, 7, 9, 15, 31, 33, 63]) if rng.random() < 0.7 else rng.choice(G.ALL_K),
                      'seed': rng.getrandbits(32), 'full': tier == 'thorough' and i % 10 == 0})
    for j in range(6 if tier == 'quick' else 60):
        n_, f_ = FLOAT_PAIRS[j % len(FLOAT_PAIRS)]
        descs.append({'ns': n_, 'k': rng.choice([7, 15, 31, 33]), 'seed': rng.getrandbits(32), 'full': False, 'mf': f_})
    for j in range(5 if tier == 'quick' else 40):
        # thousands of rows (and sometimes dozens of samples): passes over the table beyond their small-input paths
        descs.insert(15 + 9 * j, {'ns': rng.choice([3, 8, 12, 30, 45]), 'k': rng.choice([15, 31, 33]), 'seed': rng.getrandbits(32), 'full': False,
                                  'nrows': rng.choice([1500, 4500] if tier == 'quick' else [1500, 4500, 12000])})
    for j, nr in enumerate([70000] if tier == 'quick' else [70000, 140000, 70000]):
        # more columns than any block or buffer of the alignment writer (> 65536)
        descs.insert(12 + j, {'ns': rng.choice([2, 3]), 'k': rng.choice([31, 33]), 'seed': rng.getrandbits(32), 'full': False, 'nrows': nr})
    for j in range(3 if tier == 'quick' else 12):
        # hundreds of samples (per-row tallies beyond one byte): every presence count 1..n is among the forced rows
        descs.insert(14 + 6 * j, {'ns': [257, 300, 256][j % 3], 'k': rng.choice([15, 31, 33]), 'seed': rng.getrandbits(32), 'full': False, 'nrows': 3, 'crowd': True})
    for i, d in enumerate(descs):
        d['chk'] = (i % 6 == 0) and not d.get('nrows')
        if i % 9 == 4 and 2 <= d['ns'] <= 12 and not d.get('nrows'):
            d['emptysample'] = 1 + i
        elif i % 4 == 1 and d['ns'] <= 12 and not d.get('nrows') and (10000 % d['ns'] == 0 or d['ns'] in (3, 6, 7, 9, 11, 12)):
            # min-freq giving a weed threshold of exactly one sample (floor(f*n) = 1)
            d['pretreat'] = {1: '1', 2: '0.5', 3: '0.34', 4: '0.25', 5: '0.2', 6: '0.17', 7: '0.15', 8: '0.125', 9: '0.12',
                             10: '0.1', 11: '0.1', 12: '0.09'}[d['ns']]
    return descs


def forced_rows(rng, ns):
    rows = []
    rows.append(['C'] * ns)                                             # all equal
    if ns > 1:
        r = ['C'] * ns
        r[rng.randrange(ns)] = '-'
        rows.append(r)                                                  # all equal but one gap
        rows.append([rng.choice(['R', 'Y', 'N', 'K']) for _ in range(ns)])  # only ambiguous
        r = [rng.choice(['R', 'S', 'N']) for _ in range(ns)]
        r[rng.randrange(ns)] = 'A'
        rows.append(r)                                                  # one unambiguous, rest ambiguous
    if ns >= 3:
        # exactly one unambiguous base, one or two ambiguity codes, gaps elsewhere (count 1 under --filter-ambig-as-missing, yet
        # two distinct non-gap symbols)
        for _ in range(2):
            r = ['-'] * ns
            idx = rng.sample(range(ns), min(ns, rng.choice([2, 3])))
            r[idx[0]] = rng.choice('ACGT')
            for i_ in idx[1:]:
                r[i_] = rng.choice(['Y', 'R', 'N', 'S'])
            rows.append(r)
    for j in range(1, ns + 1):                                          # every presence count
        idx = set(rng.sample(range(ns), j))
        rows.append([rng.choice('ACGT' + ('RN' if rng.random() < 0.3 else '')) if i in idx else '-' for i in range(ns)])
    return rows


def make_case_table(rng, k, ns, nrows=None):
    rows = G.make_table(rng, k, ns, nrows or rng.randint(1, 45 if ns <= 12 else 8))
    for r in forced_rows(rng, ns):
        while True:
            arms = G.canonical_arms(rng, k)
            if arms not in rows:
                rows[arms] = r
                break
    # every sample needs at least one k-mer or ska build refuses it
    for s in range(ns):
        if all(r[s] == '-' for r in rows.values()):
            rows[next(iter(rows))][s] = 'A'
    return rows


def expected_cols(rows, ns, filt, mf, fam, mask, nogap):
    thr = M.ceil_thr(mf, ns)
    return sorted(''.join(v) for v in M.t_filter(rows, filt, thr, fam, mask, nogap).values())


def settings_for(rng, ns, full, forced_mf=None):
    if forced_mf is not None:
        return [(filt, forced_mf, fam, False, False) for filt in ('no-filter', 'no-const') for fam in (False, True)]
    freqs = [('%.4f' % (j / ns)).rstrip('0').rstrip('.') if (j * 10000) % ns == 0 else None for j in range(ns + 1)]
    freqs = [f for f in freqs if f is not None] + ['0.9', '0.5', '0.7', '0.3', '0.6', '0.35']
    # four-digit decimals just below and just above every j/n that is not itself a short decimal (1/3 -> 0.3333, 0.3334)
    for j in range(1, ns):
        if (j * 10000) % ns:
            lo = (j * 10000) // ns
            freqs += ['0.%04d' % lo, '0.%04d' % (lo + 1)]
    out = []
    for filt in FILTERS:
        for fam in (False, True):
            for mask in (False, True):
                for nogap in (False, True):
                    fs = freqs if full else [rng.choice(freqs)]
                    for mf in fs:
                        out.append((filt, mf, fam, mask, nogap))
    return out


def is_sub(a, b):
    """multiset a within multiset b (both sorted lists)"""
    from collections import Counter
    ca, cb = Counter(a), Counter(b)
    return all(cb[x] >= n for x, n in ca.items())


def run_case(desc, ctx):
    res = Result()
    k, ns = desc['k'], desc['ns']
    rng = random.Random(desc['seed'])
    rows = make_case_table(rng, k, ns, desc.get('nrows'))
    if desc.get('crowd'):
        res.count('tables_of_256+_samples')
    elif desc.get('nrows'):
        res.count('large_tables')
        if desc['nrows'] > 65536:
            res.count('tables_over_65536_rows')
    res.see('nsamples', ns)
    res.see('k', k)
    for variant in (['rel', 'chk'] if desc.get('chk') else ['rel']):
        b = ctx.bins[variant]
        fns = G.write_table_samples(ctx, rows, k, ns)
        p = G.ska_build(ctx, ctx.path('t'), fns, k, True, binary=b)
        if p.returncode != 0:
            res.count('table_build_failed')
            return res
        hdr, T = G.nk(ctx, ctx.path('t.skf'), binary=b)
        if T != rows:
            res.count('table_readout_mismatch(C01)')
            return res
        if desc.get('pretreat'):
            # the stored file first goes through `ska weed --filter-ambig-as-missing` with a threshold of one sample:
            # by the documented effect this only drops rows without any unambiguous base; align must then treat the
            # stored k-mers like those of any other file
            pt = ctx.sh(b, 'weed', ctx.path('t.skf'), '--filter-ambig-as-missing', '--min-freq', desc['pretreat'])
            rows_t = M.t_filter(rows, 'no-filter', M.floor_thr(desc['pretreat'], ns), True, False, False)
            try:
                hdr, T = G.nk(ctx, ctx.path('t.skf'), binary=b)
            except (G.NkFailed, ValueError):
                T = None
            if pt.returncode != 0 or T != rows_t or not rows_t:
                res.count('pretreatment_not_as_modelled(C10)')
                return res
            rows = rows_t
            if variant == 'rel':
                res.count('pretreated_files')
        if desc.get('emptysample'):
            # a stored sample without any k-mer: its private rows (all it has) are weeded away; it stays a sample of the file and
            # counts in every threshold and every column
            es = desc['emptysample'] % ns
            rows_e = {a: r for a, r in rows.items()}
            priv = [a for a, r in rows_e.items() if r[es] != '-']
            keep = {a: r for a, r in rows_e.items() if r[es] == '-'}
            if not priv or not keep or ns < 2:
                res.count('emptysample_not_constructible')
                return res
            h_ = (k - 1) // 2
            G.write_fa(ctx.path('priv.fa'), [a[:h_] + 'A' + a[h_:] + 'N' for a in priv])
            pe = ctx.sh(b, 'weed', ctx.path('t.skf'), ctx.path('priv.fa'), '--min-freq', '0')
            try:
                hdr_e, T_e = G.nk(ctx, ctx.path('t.skf'), binary=b)
            except (G.NkFailed, ValueError):
                T_e, hdr_e = None, {}
            if pe.returncode != 0 or T_e != keep or hdr_e.get('names') != ['s%d' % i for i in range(ns)]:
                res.count('emptysample_weed_not_as_modelled(C13)')
                return res
            rows = keep
            if variant == 'rel':
                res.count('files_with_a_sample_without_kmers')
        names_exp = ['s%d' % i for i in range(ns)]
        got_by_setting = {}
        settings = settings_for(rng, ns, desc['full'] and variant == 'rel', desc.get('mf'))
        if variant == 'chk':
            settings = settings[::4]
        if desc.get('nrows', 0) > 65536:
            # settings that let (nearly) every row through, so that the output itself exceeds 65536 columns
            settings = [('no-filter', '0', False, False, False), ('no-ambig', '0', False, False, False), ('no-filter', '0', False, True, False)] + settings[::3]
        if variant == 'rel' and not desc.get('nrows'):
            # no option at all: the documented defaults (--filter no-const, --min-freq 0.9, no flag) apply
            n0, s0, p0 = G.align_output(ctx, [ctx.path('t.skf')], binary=b)
            res.evals += 1
            if n0 is None or sorted(M.columns(s0)) != expected_cols(rows, ns, 'no-const', '0.9', False, False, False) or n0 != names_exp:
                res.violate('C06:defaults', 'k=%d ns=%d: `ska align` without options gives %s columns, the documented defaults (no-const, min-freq 0.9) give %d: %s'
                            % (k, ns, None if s0 is None else len(M.columns(s0)), len(expected_cols(rows, ns, 'no-const', '0.9', False, False, False)), p0.stderr.strip()[-120:]),
                            {'rows': rows})
            else:
                res.count('runs_with_default_options')
        for (filt, mf, fam, mask, nogap) in settings:
            args = [ctx.path('t.skf'), '--filter', filt, '--min-freq', mf] + (['--filter-ambig-as-missing'] if fam else []) \
                + (['--ambig-mask'] if mask else []) + (['--no-gap-only-sites'] if nogap else [])
            if desc['seed'] % 3 == 0:
                # output to a file that earlier runs of this table already wrote to (several of them longer)
                pa = ctx.sh(b, 'align', *args, '-o', ctx.path('out.aln'))
                if pa.returncode == 0:
                    names, seqs = M.parse_fasta(open(ctx.path('out.aln')).read())
                    if variant == 'rel':
                        res.count('aligns_to_reused_output_file')
                else:
                    names, seqs = None, None
            else:
                names, seqs, pa = G.align_output(ctx, args, binary=b)
            if variant == 'chk':
                res.count('chk_runs')
                if names is None and 'overflow' in pa.stderr:
                    res.count('chk_overflow_panics')
                    continue
            else:
                res.evals += 1
                res.count('filter:' + filt)
            sig = 'C06:%s:%s%s%s' % (filt, 'fam' if fam else '', 'mask' if mask else '', 'nogap' if nogap else '')
            if names is None:
                res.violate(sig + ':failed', 'align failed (%s %s): %s' % (filt, mf, pa.stderr[-200:]), {'rows': rows, 'args': args[1:]})
                continue
            got = sorted(M.columns(seqs))
            exp = expected_cols(rows, ns, filt, mf, fam, mask, nogap)
            bad = []
            if len(exp) > 65536 and variant == 'rel':
                res.count('alignments_over_65536_columns')
            if got != exp:
                bad.append('columns differ: %d got, %d expected; missing=%s extra=%s'
                           % (len(got), len(exp), [c for c in exp if c not in got][:3], [c for c in got if c not in exp][:3]))
            if names != names_exp:
                bad.append('names %s' % names)
            if len(set(map(len, seqs))) > 1:
                bad.append('unequal lengths')
            if bad:
                thr = M.ceil_thr(mf, ns)
                res.violate(sig, 'k=%d ns=%d filter=%s min-freq=%s (threshold %d) fam=%s mask=%s nogap=%s (%s): %s'
                            % (k, ns, filt, mf, thr, fam, mask, nogap, variant, '; '.join(bad)),
                            {'rows': rows, 'args': args[1:], 'got': got, 'expected': exp})
                continue
            if variant != 'rel':
                continue
            got_by_setting[(filt, mf, fam, mask, nogap)] = got
            res.count('rows_kept', len(exp))
            res.count('rows_dropped', len(rows) - len(exp))
            thr = M.ceil_thr(mf, ns)
            res.count('threshold_boundary_rows', sum(1 for r in rows.values()
                                                     if sum(1 for x in r if x != '-') in (thr, thr - 1)))
            import math
            if math.ceil(float(mf) * ns) != thr:
                res.count('float_sensitive_thresholds')
            if 0 < len(exp) < len(rows):
                res.nontrivial.append(fingerprint([k, rows, filt, mf, fam, mask, nogap]))
        # sub-multiset relations between settings actually run (same mask, so the symbols are comparable)
        keys = list(got_by_setting)
        for a in keys:
            for c in keys:
                if a == c or a[3] != c[3] or a[2] != c[2] or a[4] != c[4]:
                    continue
                fa, fc = a[0], c[0]
                stricter_filter = (fa == fc) or (fc == 'no-filter') or (fa == 'no-ambig-or-const' and fc == 'no-const')
                if stricter_filter and M.ceil_thr(a[1], ns) >= M.ceil_thr(c[1], ns):
                    res.count('submultiset_relations_checked')
                    if not is_sub(got_by_setting[a], got_by_setting[c]):
                        res.violate('C06:submultiset', 'stricter setting %s yields a column that laxer %s does not' % (a, c),
                                    {'rows': rows})
    if res.sample is None:
        res.sample = {'k': k, 'ns': ns, 'rows': dict(list(rows.items())[:6]), 'settings_run': len(got_by_setting)}
    return res
