"""C01 - Build yields exactly the split k-mers of the input, IUPAC-merged per k-mer."""
import os
import random

from .. import gen as G
from .. import model as M
from ..run import Result, fingerprint

ID = 'C01'
LEVEL = 'exploration'
BUDGET = {'quick': 150, 'thorough': 1500}
CHUNK = 8
RULE = ('Cases: FASTA record sets built with `ska build -k K [--single-strand]` and read out with `ska nk --full-info` (a third also with plain `ska nk` and `ska nk -v`, whose header fields must agree), '
        'compared with the set-based reference model (arms -> IUPAC code of the set of middles; header fields). '
        'Forced kinds for every odd k in 5..63 and both strand modes: records of length k-1/k/k+1, N exactly k+1/k/k+2 '
        'from the record end, scaffold-style records (stretches of bases between runs of N, an N exactly a stride after an N of the run before it, strides around powers of two, round numbers), one k-mer repeated with 2..4 middles in both orientations, self-complementary arms, a record '
        'and its reverse complement, input with no window (must be refused); plus random records (mixed case, N runs, low-complexity runs and tandem repeats around the arm length, '
        'wrapping, a tenth with CRLF line ends, a tenth with a sample spread over two FASTA files of a file list), multi-sample builds, three inputs per run of 6..80 kb (up to 300 kb in thorough; tables of thousands to hundreds of thousands of rows), builds of 20..160 samples with --threads 2..16, and several builds with different k inside one process (library route, harness).  A case is non-trivial when the model has at least one window; distinct = '
        'distinct (k, strand mode, record set).')
ASSUMPTIONS = ['the reference model in vlib/model.py states the specification correctly',
               'file names s<i>.fa give sample names s<i>',
               'a 15% slice is also run on the overflow-checked build; its panics are diagnostics, the release build decides']
REQUIRED = {'quick': ['kind:len', 'kind:nend', 'kind:repeat', 'kind:pal', 'kind:rcrec', 'kind:empty', 'kind:random',
                      'kind:multi', 'kind:gaps', 'gap_pairs_a_stride_apart', 'kind:manythreads', 'kind:inprocess', 'inprocess_builds_compared', 'palindromic_rows', 'refusals_correct', 'width64', 'width128', 'nk_without_full_info_compared', 'kind:huge', 'tables_over_4096_rows', 'crlf_inputs', 'samples_given_as_two_fasta_files', 'two_file_samples_whose_first_file_has_no_window', 'parallel_builds_with_two_file_samples']}
REQUIRED['thorough'] = REQUIRED['quick']

KINDS = ['len', 'nend', 'repeat', 'pal', 'rcrec', 'empty', 'gaps']


def builds(tier):
    return ['rel', 'chk', 'harness']


def plan(tier, seed, rng, scale):
    descs = []
    for k in G.ALL_K:
        for rcmode in (True, False):
            for kind in KINDS:
                descs.append({'kind': kind, 'k': k, 'rc': rcmode, 'seed': rng.getrandbits(32)})
    nrand = int((12000 if tier == 'quick' else 60000) * scale)
    for i in range(nrand):
        kind = 'multi' if i % 5 == 0 else ('long' if (tier == 'thorough' and i % 50 == 1) else ('gaps' if i % 20 == 3 else 'random'))
        descs.append({'kind': kind, 'k': rng.choice(G.ALL_K), 'rc': rng.random() < 0.6, 'seed': rng.getrandbits(32)})
    for i, d in enumerate(descs):
        d['chk'] = (i % 7 == 0)
    for i, hz in enumerate([6000, 20000, 80000] if tier == 'quick' else [6000, 20000, 80000, 150000, 300000, 80000]):
        # thousands to hundreds of thousands of rows: read-out, save and build beyond any block or buffer size
        descs.insert(40 + 17 * i, {'kind': 'huge', 'k': rng.choice([15, 21, 31, 33, 41]), 'rc': rng.random() < 0.6, 'seed': rng.getrandbits(32), 'huge': hz, 'chk': False})
    for i in range(int((10 if tier == 'quick' else 100) * scale)):
        descs.append({'kind': 'manythreads', 'k': rng.choice([9, 15, 31, 33]), 'rc': True, 'seed': rng.getrandbits(32),
                      'threads': rng.choice([2, 4, 8, 16]), 'chk': False})
    for i in range(int((30 if tier == 'quick' else 300) * scale)):
        descs.append({'kind': 'inprocess', 'k': 0, 'rc': True, 'seed': rng.getrandbits(32), 'chk': False})
    return descs


def gen_records(desc):
    """Returns a list of samples, each a list of records."""
    rng = random.Random(desc['seed'])
    k = desc['k']
    h = (k - 1) // 2
    kind = desc['kind']
    if kind == 'len':
        choice = rng.randrange(5)
        if choice == 0:
            recs = [G.noisy_seq(rng, k, pn=0)]
        elif choice == 1:
            recs = [G.noisy_seq(rng, k + 1, pn=0)]
        elif choice == 2:
            recs = [G.noisy_seq(rng, k - 1, pn=0), G.noisy_seq(rng, k, pn=0)]
        elif choice == 3:
            recs = [G.noisy_seq(rng, k, pn=0), G.noisy_seq(rng, k - 1, pn=0), G.noisy_seq(rng, k + 1, pn=0)]
        else:
            recs = [G.noisy_seq(rng, k, pn=0) for _ in range(3)]
        return [recs]
    if kind == 'nend':
        dist = rng.choice([k + 1, k, k + 2, k + 1])
        L = dist + rng.randint(0, 2 * k)
        s = list(G.noisy_seq(rng, L, pn=0))
        s[L - dist] = rng.choice('Nn')          # exactly dist-1 bases follow the N
        recs = [''.join(s)]
        if rng.random() < 0.5:
            recs.append(G.noisy_seq(rng, k, pn=0) + 'N' + G.noisy_seq(rng, k, pn=0))
        return [recs]
    if kind == 'repeat':
        w = G.rseq(rng, k)
        nm = rng.choice([2, 3, 4])
        mids = rng.sample('ACGT', nm)
        recs = []
        for m in mids:
            v = w[:h] + m + w[h + 1:]
            if rng.random() < 0.5:
                v = M.rc(v)
            recs.append(G.rseq(rng, rng.randint(0, 3)) + v + ('' if rng.random() < 0.5 else 'N' + G.rseq(rng, rng.randint(0, k))))
        if rng.random() < 0.5:
            recs = ['N'.join(recs)]
        rng.shuffle(recs)
        return [recs]
    if kind == 'pal':
        arm = G.rseq(rng, h)
        choice = rng.randrange(5)
        if choice < 3:
            mids = {0: [rng.choice('AT')], 1: [rng.choice('CG')], 2: [rng.choice('AT'), rng.choice('CG')]}[choice]
        else:
            mids = [rng.choice('ACGT') for _ in range(rng.randint(2, 4))]      # repeated sightings, order matters
        recs = [arm + m + M.rc(arm) for m in mids]
        if rng.random() < 0.5:
            recs.append(G.rseq(rng, rng.randint(k, 2 * k)))
        if rng.random() < 0.3:
            recs = ['n'.join(recs)]
        return [recs]
    if kind == 'rcrec':
        a = G.rseq(rng, rng.randint(k, 4 * k))
        recs = [a, M.rc(a)]
        if rng.random() < 0.5:
            recs.append(G.noisy_seq(rng, rng.randint(k, 2 * k)))
        return [recs]
    if kind == 'empty':
        choice = rng.randrange(3)
        if choice == 0:
            recs = [G.rseq(rng, k - 1)]
        elif choice == 1:
            recs = [G.rseq(rng, k - 1) + 'N' + G.rseq(rng, rng.randint(1, k - 1))]
        else:
            recs = [G.rseq(rng, rng.randint(1, k - 1)) for _ in range(3)]
        return [recs]
    if kind == 'gaps':
        # scaffold-style records: stretches of bases between runs of N, with an N exactly a stride S after some N of the run
        # before it (S around powers of two, round numbers and k), so that any block-wise or strided treatment of gaps that
        # looks at positions S apart meets unknown bases at both; between the two there are up to S-1 good bases
        recs = []
        for _ in range(rng.randint(1, 2)):
            S = rng.choice([8, 16, 32, 64, 100, 128, 256, 512, 1000, 1024]) + rng.choice([0, 0, 0, -1, 1])
            t = G.rseq(rng, rng.choice([0, 1, h, k - 1, k, k + 1, rng.randint(0, 3 * k)]))
            for _j in range(rng.randint(1, 4)):
                r = rng.choice([1, 2, 2, 3, 5, rng.randint(2, 40), S, S + 1, rng.randint(1, 2 * S)])
                i_ = rng.randrange(r)
                t += ''.join(rng.choice('NNNn') for _x in range(r))
                stretch = S - (r - i_)
                if stretch <= 0 or rng.random() < 0.15:
                    stretch = rng.choice([k - 1, k, k + 1, rng.randint(1, 4 * k)])
                t += G.rseq(rng, stretch)
            t += rng.choice('Nn') * rng.choice([1, 1, 2, 7]) + G.rseq(rng, rng.choice([0, k - 1, k, k + 1, rng.randint(0, 300)]))
            recs.append(t)
        return [recs]
    if kind == 'huge':
        n1 = rng.randint(desc['huge'] // 3, 2 * desc['huge'] // 3)
        return [[G.noisy_seq(rng, n1, pn=rng.choice([0, 0.0005])), G.rseq(rng, desc['huge'] - n1)]]
    if kind in ('random', 'long'):
        recs = []
        for _ in range(rng.randint(1, 4)):
            if kind == 'long':
                L = rng.randint(500, 5000)
            else:
                L = rng.choice([k - 1, k, k + 1, k + 2, 2 * k, rng.randint(k, 6 * k)])
            if kind == 'random' and rng.random() < 0.2:
                # low complexity: runs and tandem repeats around the arm length and k (the same arms seen again one base on)
                t_ = G.lowc_seq(rng, max(L, k), k)
                if rng.random() < 0.3:
                    i_ = rng.randrange(len(t_))
                    t_ = t_[:i_] + 'N' + t_[i_ + 1:]
                recs.append(t_)
            else:
                recs.append(G.noisy_seq(rng, L, pn=rng.choice([0, 0, 0.01, 0.05])))
        return [recs]
    if kind == 'manythreads':
        base = G.rseq(rng, 3 * k)
        samples = []
        for _ in range(rng.choice([20, 40, 70, 72, 80, 160])):
            t = list(base)
            for _j in range(rng.randint(0, 3)):
                t[rng.randrange(len(t))] = rng.choice('ACGTN')
            samples.append([''.join(t)] + ([G.rseq(rng, k + rng.randint(0, 8))] if rng.random() < 0.4 else []))
        return samples
    if kind == 'multi':
        base = [G.rseq(rng, rng.randint(k, 5 * k)) for _ in range(rng.randint(1, 3))]
        samples = []
        for _ in range(rng.randint(2, 5)):
            recs = []
            for b in base:
                s = list(b)
                for _ in range(rng.choice([0, 1, 2])):
                    s[rng.randrange(len(s))] = rng.choice('ACGTN')
                recs.append(''.join(s))
            if rng.random() < 0.4:
                recs.append(G.rseq(rng, rng.randint(k, 3 * k)))
            samples.append(recs)
        return samples
    raise ValueError(kind)


def judge(res, sig_prefix, desc, samples, p_build, hdr, table, k, rcmode, expected):
    """Compare a read-out with the model; records violations."""
    ns = len(samples)
    what = []
    exp_hdr = {'k': str(k), 'k_bits': '64' if k <= 31 else '128', 'rc': 'true' if rcmode else 'false',
               'k-mers': str(len(expected)), 'samples': str(ns)}
    for f, v in exp_hdr.items():
        if hdr.get(f) != v:
            what.append('header %s=%s expected %s' % (f, hdr.get(f), v))
    if hdr.get('names') != ['s%d' % i for i in range(ns)]:
        what.append('sample names %s' % hdr.get('names'))
    exp_counts = [sum(1 for r in expected.values() if r[i] != '-') for i in range(ns)]
    if hdr.get('kmers_per_sample') != exp_counts:
        what.append('per-sample counts %s expected %s' % (hdr.get('kmers_per_sample'), exp_counts))
    if table != expected:
        missing = [x for x in expected if x not in table]
        extra = [x for x in table if x not in expected]
        diff = [(x, table[x], expected[x]) for x in expected if x in table and table[x] != expected[x]]
        what.append('table differs: missing=%s extra=%s different=%s' % (missing[:3], extra[:3], diff[:3]))
    if what:
        res.violate('%s:%s:table' % (sig_prefix, desc['kind']),
                    'k=%d rc=%s kind=%s: %s' % (k, rcmode, desc['kind'], '; '.join(what)),
                    {'samples': samples, 'k': k, 'rc': rcmode, 'got': table, 'expected': expected, 'hdr': hdr})


def run_inprocess(desc, ctx, res):
    """Several builds with different k (and strand modes) inside one process, each compared with the model."""
    rng = random.Random(desc['seed'])
    jobs = []
    lines = []
    for n in range(rng.randint(3, 7)):
        k = rng.choice(G.ALL_K)
        rcmode = rng.random() < 0.6
        recs = [G.noisy_seq(rng, rng.randint(k, 5 * k), pn=rng.choice([0, 0.02])) for _ in range(rng.randint(1, 3))]
        if not M.build(recs, k, rcmode):
            continue
        fn = G.write_fa(ctx.path('ip%d.fa' % n), recs)
        jobs.append((k, rcmode, recs))
        lines.append('%d %d %s' % (k, rcmode, fn))
    if len(jobs) < 2:
        return
    ctx.write('multik.txt', '\n'.join(lines) + '\n')
    p = ctx.sh(ctx.bins['harness'], 'multik', ctx.path('multik.txt'))
    parts = p.stdout.split('== ')[1:]
    res.count('kind:inprocess')
    for n, (k, rcmode, recs) in enumerate(jobs):
        res.evals += 1
        expected = M.table_of([recs], k, rcmode)
        ok = False
        if n < len(parts):
            try:
                hdr, table = M.parse_nk(parts[n].split('\n', 1)[1])
                ok = table == expected and hdr.get('k') == str(k)
            except (ValueError, IndexError):
                ok = False
        if not ok:
            res.violate('C01:inprocess', 'build number %d in one process (k=%d rc=%s after k=%s) differs from the model%s'
                        % (n + 1, k, rcmode, [j[0] for j in jobs[:n]], '' if p.returncode == 0 else ': ' + p.stderr.strip()[-150:]),
                        {'jobs': [(j[0], j[1], j[2]) for j in jobs]})
            return
        res.count('inprocess_builds_compared')
    res.nontrivial.append(fingerprint(['inprocess', desc['seed']]))


def run_case(desc, ctx):
    res = Result()
    if desc['kind'] == 'inprocess':
        run_inprocess(desc, ctx, res)
        return res
    k, rcmode = desc['k'], desc['rc']
    samples = gen_records(desc)
    rng = random.Random(desc['seed'] ^ 0x5a5a)
    files = []
    # input layouts: LF or (a tenth) CRLF line ends, wrapped or not; route: positional files, or (a tenth) a file list in which
    # a sample's records are spread over two FASTA files (name, file 1, file 2)
    crlf = rng.random() < 0.1
    two_files = rng.random() < (0.5 if desc['kind'] == 'manythreads' else 0.1)
    listed = []
    for i, recs in enumerate(samples):
        wrap_ = rng.choice([0, 0, 10, 60])

        hstyle = rng.choice(['plain', 'plain', 'plain', 'shared-first-word', 'identical', 'empty'])

        def put(name, rr):
            hn = None if hstyle == 'plain' else [{'shared-first-word': 'ctg part %d' % j_, 'identical': 'contig_1', 'empty': ''}[hstyle] for j_ in range(len(rr))]
            txt = G.fasta_text(rr, wrap_, hn)
            if crlf:
                txt = txt.replace('\n', '\r\n')
            with open(ctx.path(name), 'w', newline='') as fh:
                fh.write(txt)
            return ctx.path(name)
        if two_files and rng.random() < 0.3:
            # the first of the two files holds no window at all (a short or N-broken contig): the sample is what the second holds
            empty_handed = [rng.choice([G.rseq(rng, max(1, k - 1)), G.rseq(rng, k // 2) + 'N' + G.rseq(rng, k // 2)])]
            listed.append('s%d\t%s\t%s\n' % (i, put('s%d_a.fa' % i, empty_handed), put('s%d_b.fa' % i, recs)))
            res.count('two_file_samples_whose_first_file_has_no_window')
        elif two_files and len(recs) >= 2:
            cut = rng.randint(1, len(recs) - 1)
            listed.append('s%d\t%s\t%s\n' % (i, put('s%d_a.fa' % i, recs[:cut]), put('s%d_b.fa' % i, recs[cut:])))
        else:
            files.append(put('s%d.fa' % i, recs))
            listed.append('s%d\t%s\n' % (i, files[-1]))
    if two_files and any(l.count('\t') == 2 for l in listed):
        files = ['-f', ctx.write('inputs.list', ''.join(listed))]
        res.count('samples_given_as_two_fasta_files')
        if desc['kind'] == 'manythreads':
            res.count('parallel_builds_with_two_file_samples')
    else:
        two_files = False
        files = [l.rstrip('\n').split('\t')[1] for l in listed]
    if crlf:
        res.count('crlf_inputs')
    per_sample = [M.build(recs, k, rcmode) for recs in samples]
    expected = M.table_of(samples, k, rcmode)
    must_refuse = any(not d for d in per_sample)
    res.count('kind:' + desc['kind'])
    if desc['kind'] == 'gaps':
        for recs_ in samples:
            for t_ in recs_:
                u_ = t_.upper()
                ns_ = {i_ for i_, c_ in enumerate(u_) if c_ == 'N'}
                for d_ in (8, 16, 32, 64, 100, 128, 256, 512, 1000, 1024):
                    for e_ in (d_ - 1, d_, d_ + 1):
                        if any((i_ + e_) in ns_ and u_[i_ + 1:i_ + e_].strip('N') for i_ in ns_):
                            res.count('gap_pairs_a_stride_apart')
                            res.see('gap_stride', e_)
    res.see('k', k)
    res.see('k_rc', '%d/%s' % (k, 'rc' if rcmode else 'ss'))
    res.count('width64' if k <= 31 else 'width128')

    for variant in (['rel', 'chk'] if desc.get('chk') else ['rel']):
        binary = ctx.bins[variant]
        out = ctx.path(('o_' if desc['seed'] % 3 else 'E.coli.k12_') + variant)        # a third of the prefixes contain dots
        if desc['seed'] % 4 == 1:
            ctx.write(os.path.basename(out) + '.skf', os.urandom(50000))      # an older, larger file of that name exists
            res.count('output_file_existed')
        p = G.ska_build(ctx, out, files, k, rcmode, binary=binary, extra=['--threads', desc['threads']] if desc.get('threads') else ())
        if variant == 'chk':
            res.count('chk_runs')
            if p.returncode != 0 and 'overflow' in p.stderr:
                res.count('chk_overflow_panics')
                res.see('chk_overflow_site', p.stderr.split('panicked at ')[-1].split('\n')[0][:80])
                continue
        else:
            res.evals += 1
        if must_refuse:
            if p.returncode == 0:
                res.violate('C01:%s:accepted-empty' % desc['kind'],
                            'k=%d rc=%s: build succeeded although a sample has no window of k non-N bases' % (k, rcmode),
                            {'samples': samples})
            else:
                res.count('refusals_correct')
            continue
        if p.returncode != 0:
            res.violate('C01:%s:build-failed' % desc['kind'],
                        'k=%d rc=%s (%s): build failed although the model has %d k-mers: %s'
                        % (k, rcmode, variant, len(expected), p.stderr.strip().split('\n')[-1][:200] if p.stderr.strip() else ''),
                        {'samples': samples, 'stderr': p.stderr[-600:]})
            continue
        try:
            hdr, table = G.nk(ctx, out + '.skf', binary=binary)
        except (G.NkFailed, ValueError) as e:
            res.violate('C01:%s:nk-failed' % desc['kind'], 'nk failed on a fresh build: %s' % e, {'samples': samples})
            continue
        judge(res, 'C01' if variant == 'rel' else 'C01chk', desc, samples, p, hdr, table, k, rcmode, expected)
        if variant == 'rel' and desc['seed'] % 3 == 0:
            # `ska nk` without --full-info (with and without the global -v) reports the same header fields
            for extra in ([], ['-v']):
                q = ctx.sh(binary, 'nk', out + '.skf', *extra)
                res.evals += 1
                try:
                    h2, t2 = M.parse_nk(q.stdout) if q.returncode == 0 else (None, None)
                except ValueError:
                    h2, t2 = None, None
                if h2 is None or t2 or any(h2.get(f) != hdr.get(f) for f in ('k', 'k_bits', 'rc', 'k-mers', 'samples', 'names', 'kmers_per_sample')):
                    res.violate('C01:nk-short', 'k=%d rc=%s: `ska nk%s` (exit %d) reports %s, `ska nk --full-info` %s'
                                % (k, rcmode, ' -v' if extra else '', q.returncode, h2, {f: hdr.get(f) for f in ('k', 'k_bits', 'rc', 'k-mers', 'samples', 'names', 'kmers_per_sample')}),
                                {'samples': samples})
                else:
                    res.count('nk_without_full_info_compared')
        if variant == 'rel':
            if len(expected) > 4096:
                res.count('tables_over_4096_rows')
                res.see('huge_rows', len(expected))
            res.count('rows_compared', len(expected))
            for row in expected.values():
                for b in row:
                    if b in M.AMBIG:
                        res.count('ambiguous_cells')
                        res.see('codes', b)
                    elif b != '-':
                        res.see('codes', b)
            npal = sum(1 for a in expected if rcmode and a == M.rc(a))
            if npal:
                res.count('palindromic_rows', npal)
    if expected and not must_refuse:
        res.nontrivial.append(fingerprint([k, rcmode, samples]))
    if desc['kind'] in ('len', 'pal') and res.sample is None:
        res.sample = {'k': k, 'rc': rcmode, 'kind': desc['kind'], 'records': samples,
                      'model_rows': len(expected)}
    return res
