"""C20 - cov tabulates exact k-mer multiplicities and labels the cutoff it defines."""
import math
import random
import re

from .. import gen as G
from .. import model as M
from ..run import Result, fingerprint, Inconclusive

ID = 'C20'
LEVEL = 'exploration'
BUDGET = {'quick': 240, 'thorough': 3000}
CHUNK = 1
RULE = ('(a) Simulated read pairs (genome 3..8 kb, coverage 10..80, error rate 0..3%, N, both orientations, a third trimmed to lengths from exactly k upwards and/or with unequal numbers of records in the two files, 30% with a high-copy homopolymer/tandem element whose k-mers are seen > 1000 times, all odd k, both '
        'strand modes) through `ska cov` and through the hooked library: every table row against the exact number of distinct '
        'canonical split k-mers seen that many times (set-based model), table length = last multiplicity shared by >= 50 '
        'k-mers, rows numbered 1.., cutoff = smallest i>=1 with w0*Pois(i;1) < (1-w0)*Pois(i;c) at the fitted (w0,c) read '
        'through the hook accessor (capped at the table length), labels Error below the cutoff and Coverage from it on, '
        'mixture density column = w0*Pois(i;1)+(1-w0)*Pois(i;c) (independent Python implementation with lgamma).  '
        '(a2) Fault injection on the input: a read file with one malformed record or a gzip stream cut in its middle is either refused or tabulated exactly over its well-formed records.  (b) Likelihood/gradient identity through the hooked functions: grad_ll against central differences of the hooked '
        'log_likelihood and log_likelihood against the Python mixture, on grid and random points 0<w0<1, 1<=c<=200 with real '
        'and synthetic histograms (including the test suite\'s), three histograms of different lengths per process (short, long, in between).  (c) find_cutoff against the definition on random parameters.  (d) Given histograms (through the hook constructor and the real fit_histogram) whose last bin with >= 50 k-mers holds exactly 50 / 49 / 51, with interior bins below 50: truncation rule, cutoff and labels.  '
        'Non-trivial (a): the fit converged and the table has both labels; (b): a parameter point; distinct = distinct inputs.')
ASSUMPTIONS = ['when the optimiser does not converge (possible at 0% error) counting is still judged through the accessor and the '
               'cutoff clauses are not judged for that case',
               'numerical gradient: central differences, relative tolerance 1e-4; decisive comparisons closer than 1e-9 are skipped']
REQUIRED = {t: ['readsets_counting_judged', 'readsets_cutoff_judged', 'rows_compared', 'labels_checked', 'gradient_points',
                'likelihood_points', 'cutoff_points', 'cli_runs', 'truncation_cases', 'truncation_exactly_50',
                'readsets_with_kmers_seen_over_1000_times', 'likelihood_points_on_later_histograms_of_a_process', 'damaged_input_refused',
                'readsets_with_reads_of_exactly_k', 'readsets_with_unequal_files', 'readsets_with_an_amplicon'] for t in ('quick', 'thorough')}

SUITE_COUNTS = [44633459, 950672, 104410, 44137, 24170, 21232, 21699, 24145, 30696, 39210, 49878, 63683, 77690, 95147,
                112416, 130307, 146531, 160932, 175130, 185113, 193149, 197468, 199189, 198235, 192150, 185565, 176362,
                165455, 152487, 139495, 127036, 112803, 103080, 90425, 80637, 70960, 62698, 54949, 46744, 41240, 35591,
                30025, 25856, 22105, 19405, 16668, 14780, 12620, 11074, 9807, 8517, 7731, 7112, 6846, 6126, 5696, 5233,
                4779, 4288, 3873, 3519, 3406, 2994, 2859, 2650, 2394, 2376, 2260, 2233, 2050, 1859, 1863, 1792, 1777,
                1773, 1738, 1648]


def builds(tier):
    return ['rel', 'harness']


def plan(tier, seed, rng, scale):
    descs = []
    n = int((160 if tier == 'quick' else 1500) * scale)
    for i in range(n):
        k = rng.choice([9, 15, 21, 31, 33, 41, 63]) if rng.random() < 0.5 else rng.choice(G.ALL_K[2:])
        descs.append({'kind': 'reads', 'k': k, 'rc': rng.random() < 0.7, 'seed': rng.getrandbits(32)})
    for i in range(int((12 if tier == 'quick' else 120) * scale)):
        descs.append({'kind': 'damaged', 'k': rng.choice([15, 21, 31, 33]), 'rc': rng.random() < 0.7, 'seed': rng.getrandbits(32),
                      'damage': ['length-mismatch', 'missing-plus', 'cut-gzip'][i % 3]})
    m = int((60 if tier == 'quick' else 600) * scale)
    for i in range(m):
        descs.append({'kind': 'grad', 'seed': rng.getrandbits(32), 'suite': i == 0})
    descs.append({'kind': 'cutoff', 'seed': rng.getrandbits(32)})
    for i in range(int((40 if tier == 'quick' else 400) * scale)):
        descs.append({'kind': 'trunc', 'seed': rng.getrandbits(32)})
    return descs


_DIG = str.maketrans('ACTGN', '0123N')
_RCD = str.maketrans('0123N', '2301N')


def count_split_kmers(reads, k, rcmode):
    """arms (digit coded) -> multiplicity, over windows of k non-N bases."""
    h = (k - 1) // 2
    cnt = {}
    for s in reads:
        d = s.upper().translate(_DIG)
        L = len(d)
        if L < k:
            continue
        r = d[::-1].translate(_RCD)
        bad_until = -1
        npos = [i for i, c in enumerate(d) if c == 'N']
        bad = set()
        for p in npos:
            for i in range(max(0, p - k + 1), min(L - k, p) + 1):
                bad.add(i)
        for i in range(L - k + 1):
            if i in bad:
                continue
            a = d[i:i + h] + d[i + h + 1:i + k]
            if rcmode:
                j = L - k - i
                b = r[j:j + h] + r[j + h + 1:j + k]
                if b < a:
                    a = b
            cnt[a] = cnt.get(a, 0) + 1
    return cnt


def ln_pois(x, lam):
    return x * math.log(lam) - math.lgamma(x + 1.0) - lam


def lse(a, b):
    m = max(a, b)
    return m + math.log(math.exp(a - m) + math.exp(b - m))


def comp_a(w0, i):
    return math.log(w0) + ln_pois(i, 1.0)


def comp_b(w0, c, i):
    return math.log(1.0 - w0) + ln_pois(i, c)


def py_ll(w0, c, counts):
    return sum(n * lse(comp_a(w0, i + 1.0), comp_b(w0, c, i + 1.0)) for i, n in enumerate(counts))


def py_cutoff(w0, c, maxc):
    """(cutoff, margin): smallest i>=1 with error component below coverage component, capped at maxc."""
    margin = float('inf')
    i = 1
    while i < maxc:
        root = comp_a(w0, float(i)) - comp_b(w0, c, float(i))
        margin = min(margin, abs(root))
        if root < 0:
            return i, margin
        i += 1
    return i, margin


def sim_reads(rng, k=None):
    glen = rng.randint(3000, 8000)
    genome = G.rseq(rng, glen)
    cov = rng.randint(10, 80)
    err = rng.choice([0, 0.005, 0.01, 0.02, 0.03])
    RL = rng.choice([100, 150])
    nreads = cov * glen // RL
    reads = [[], []]
    for r in range(nreads):
        a = rng.randrange(glen - RL + 1)
        s = list(genome[a:a + RL])
        if err:
            for j in range(RL):
                x = rng.random()
                if x < err:
                    s[j] = rng.choice('ACGT')
                elif x < err + 0.001:
                    s[j] = 'N'
        s = ''.join(s)
        if rng.random() < 0.5:
            s = M.rc_n(s)
        reads[r % 2].append(s)
    shape = None
    if k is not None and rng.random() < 0.35:
        # trimmed reads: lengths from exactly k (one window) up to the full length, a few shorter than k; and / or files with
        # unequal numbers of records (mates dropped from one file)
        shape = []
        if rng.random() < 0.7:
            for j in (0, 1):
                for i in range(len(reads[j])):
                    if rng.random() < 0.4:
                        L_ = rng.choice([k, k, k + 1, k - 1, rng.randint(k, RL)])
                        reads[j][i] = reads[j][i][:L_] if len(reads[j][i]) > L_ and L_ > 0 else reads[j][i]
            shape.append('trimmed to >= k-1')
        if rng.random() < 0.6:
            j = rng.randrange(2)
            reads[j] = [r_ for r_ in reads[j] if rng.random() < 0.75]
            shape.append('file %d thinned' % j)
        shape = ', '.join(shape) or None
    hi = None
    if rng.random() < 0.3:
        # a high-copy element: reads made of a homopolymer or a short tandem repeat, enough of them for split k-mers seen
        # more than 1000 times (the table leaves those out, every other row must stay exact)
        unit = rng.choice(['A', 'T', 'C', 'AC', 'AG', 'ACT', 'AAC'])
        nhi = rng.randint(30, 90)
        for r in range(nhi):
            s = (unit * RL)[:RL]
            if rng.random() < 0.5:
                s = M.rc_n(s)
            reads[r % 2].insert(rng.randrange(len(reads[r % 2]) + 1), s)
        hi = '%s x %d reads' % (unit, nhi)
    amp = None
    if rng.random() < 0.25:
        # an amplicon / multi-copy element: one read-length sequence present hundreds or more than a thousand times, so that
        # dozens of distinct split k-mers share a multiplicity far above the coverage (rows far out in the table, or beyond 1000)
        el = G.rseq(rng, RL)
        copies = rng.choice([rng.randint(300, 950), rng.randint(1050, 1600)])
        for r in range(copies):
            s_ = el if rng.random() < 0.5 else M.rc(el)
            reads[r % 2].append(s_)
        amp = '%d copies of a %d-base element' % (copies, RL)
    return reads, {'genome_length': glen, 'coverage': cov, 'error_rate': err, 'read_length': RL, 'high_copy': hi, 'shape': shape, 'amplicon': amp}


def parse_harness_cov(out):
    d = {'H': {}, 'fit': None, 'state': None, 'counts': None, 'table': []}
    in_table = False
    for l in out.split('\n'):
        f = l.split('\t')
        if in_table:
            if l and not l.startswith('Count'):
                d['table'].append(f)
            continue
        if f[0] == 'H':
            d['H'][int(f[1])] = int(f[2])
        elif f[0] == 'FIT':
            d['fit'] = (f[1], f[2])
        elif f[0] == 'S':
            d['state'] = (float(f[1]), float(f[2]), int(f[3]), f[4] == '1')
        elif f[0] == 'C':
            d['counts'] = [int(x) for x in f[1:] if x != '']
        elif f[0] == 'TABLE':
            in_table = True
    return d


def judge_table(res, sig, rows, exp_counts, w0, c, cutoff, detail, what):
    """rows: list of [idx, count, density, label] strings from the printed table."""
    bad = []
    idx = [int(r[0]) for r in rows]
    got = [int(r[1]) for r in rows]
    if idx != list(range(1, len(rows) + 1)):
        bad.append('row numbering %s' % idx[:5])
    if got != exp_counts:
        d = [(i + 1, a, b) for i, (a, b) in enumerate(zip(got, exp_counts)) if a != b][:3]
        bad.append('%d rows, expected %d; first differing (multiplicity, table, exact): %s' % (len(got), len(exp_counts), d))
    for r in rows:
        i = int(r[0])
        want = 'Error' if i < cutoff else 'Coverage'
        if r[3] != want:
            bad.append('row %d labelled %s with cutoff %d' % (i, r[3], cutoff))
            break
        dens = math.exp(lse(comp_a(w0, float(i)), comp_b(w0, c, float(i))))
        if abs(float(r[2]) - dens) > 1e-9 * max(dens, 1e-300) + 1e-300:
            bad.append('row %d density %s, mixture gives %.12e' % (i, r[2], dens))
            break
    if bad:
        res.violate(sig + ':table', '%s: %s' % (what, '; '.join(bad[:3])), detail)
        return False
    res.count('rows_compared', len(rows))
    res.count('labels_checked', len(rows))
    return True


def run_reads(desc, ctx, res):
    k, rcmode = desc['k'], desc['rc']
    rng = random.Random(desc['seed'])
    reads, params = sim_reads(rng, k)
    if params.get('amplicon'):
        res.count('readsets_with_an_amplicon')
    if params.get('shape'):
        res.count('readsets_trimmed_or_unequal')
        if any(len(r_) == k for r_ in reads[0] + reads[1]):
            res.count('readsets_with_reads_of_exactly_k')
        if len(reads[0]) != len(reads[1]):
            res.count('readsets_with_unequal_files')
    for j in (0, 1):
        ctx.write('r%d.fastq' % j, ''.join('@r%d\n%s\n+\n%s\n' % (i, s, 'I' * len(s)) for i, s in enumerate(reads[j])))
    cnt = count_split_kmers(reads[0] + reads[1], k, rcmode)
    hist = {}
    for v in cnt.values():
        hist[v] = hist.get(v, 0) + 1
    mx = max([m for m, v in hist.items() if v >= 50 and m <= 1000], default=0)
    exp_counts = [hist.get(m, 0) for m in range(1, mx + 1)]
    what = 'k=%d rc=%s %s' % (k, rcmode, params)
    detail = dict(params, k=k, rc=rcmode, seed=desc['seed'], note='reads are regenerated from the seed by sim_reads()')
    sig = 'C20:reads'
    res.see('k_rc', '%d/%s' % (k, 'rc' if rcmode else 'ss'))
    # ---- hooked library run: counting, fitted state, cutoff definition
    p = ctx.sh(ctx.bins['harness'], 'cov', ctx.path('r0.fastq'), ctx.path('r1.fastq'), k, int(rcmode), timeout=600)
    if p.returncode != 0:
        raise Inconclusive('harness cov failed: ' + p.stderr[-300:])
    hc = parse_harness_cov(p.stdout)
    res.evals += 1
    if hc['H'] != hist:
        d = [(m, hc['H'].get(m), hist.get(m)) for m in sorted(set(hist) | set(hc['H'])) if hc['H'].get(m) != hist.get(m)][:4]
        res.violate(sig + ':counting', '%s: multiplicity histogram differs from the exact count; (multiplicity, got, exact): %s' % (what, d), detail)
        return
    if hc['counts'] != exp_counts:
        res.violate(sig + ':truncation', '%s: table has %d rows, expected %d (last multiplicity shared by >= 50 k-mers)'
                    % (what, len(hc['counts'] or []), len(exp_counts)), detail)
        return
    res.count('readsets_counting_judged')
    if any(m > 1000 for m in hist):
        res.count('readsets_with_kmers_seen_over_1000_times')
    w0, c, cutoff, fitted = hc['state']
    converged = hc['fit'][0] == 'ok' and fitted
    if converged:
        want_cut, margin = py_cutoff(w0, c, len(exp_counts))
        if margin < 1e-9:
            res.count('cutoff_tie_skipped')
        elif cutoff != want_cut or int(hc['fit'][1]) != cutoff:
            res.violate(sig + ':cutoff', '%s: cutoff %d (returned %s) but the definition gives %d at w0=%r c=%r'
                        % (what, cutoff, hc['fit'][1], want_cut, w0, c), detail)
            return
        else:
            if judge_table(res, sig + ':lib', hc['table'], exp_counts, w0, c, cutoff, detail, what):
                res.count('readsets_cutoff_judged')
                labels = {r[3] for r in hc['table']}
                if len(labels) == 2:
                    res.nontrivial.append(fingerprint(['reads', k, rcmode, desc['seed']]))
    else:
        res.count('fit_not_converged')
    # ---- command line
    a = ctx.sh(ctx.ska, 'cov', ctx.path('r0.fastq'), ctx.path('r1.fastq'), '-k', k, *G.strand_flag(rcmode), timeout=600)
    res.evals += 1
    res.count('cli_runs')
    if a.returncode != 0:
        if converged:
            res.violate(sig + ':cli-failed', '%s: ska cov failed although the same fit converges in the library: %s' % (what, a.stderr.strip()[-200:]), detail)
        else:
            res.count('cli_fit_failed_like_library')
        return
    lines = [l for l in a.stdout.split('\n') if l]
    if not lines or lines[0] != 'Count\tK_mers\tMixture_density\tComponent':
        res.violate(sig + ':cli-format', 'unexpected table header %r' % (lines[:1],), detail)
        return
    rows = [l.split('\t') for l in lines[1:]]
    m = re.search(r'Estimated cutoff\t(\d+)', a.stderr)
    if not m:
        res.violate(sig + ':cli-format', 'no "Estimated cutoff" line on stderr', detail)
        return
    cli_cut = int(m.group(1))
    if converged:
        if cli_cut != cutoff:
            res.violate(sig + ':cli-cutoff', '%s: command line reports cutoff %d, library %d' % (what, cli_cut, cutoff), detail)
            return
        judge_table(res, sig + ':cli', rows, exp_counts, w0, c, cli_cut, detail, what)
    if res.sample is None:
        res.sample = dict(params, k=k, rc=rcmode, table_rows=len(exp_counts), first_rows=exp_counts[:6], fitted_w0=w0, fitted_c=c, cutoff=cutoff,
                          converged=converged)


def covfn(ctx, lines):
    p = ctx.sh(ctx.bins['harness'], 'covfn', stdin='\n'.join(lines) + '\n', timeout=600)
    if p.returncode != 0:
        raise Inconclusive('harness covfn failed: ' + p.stderr[-300:])
    return [l.split('\t') for l in p.stdout.split('\n') if l]


def grad_hist(rng, n):
    style = rng.randrange(3)
    if style == 0:
        # mixture-shaped synthetic histogram
        w, cc, tot = rng.uniform(0.05, 0.95), rng.uniform(2, 80), rng.choice([1e3, 1e5, 1e7])
        return [int(tot * math.exp(lse(comp_a(w, i + 1.0), comp_b(w, cc, i + 1.0)))) for i in range(n)]
    if style == 1:
        return [rng.randint(0, 10 ** rng.randint(1, 6)) for _ in range(n)]
    counts = [0] * n
    for _ in range(rng.randint(1, 5)):
        counts[rng.randrange(n)] = rng.randint(1, 10 ** 6)
    return counts


def run_grad(desc, ctx, res):
    rng = random.Random(desc['seed'])
    # several histograms of different lengths are evaluated by ONE process, a short one first, then a longer one, then one
    # in between: whatever the functions keep between calls must not depend on the histogram seen before
    lens = sorted(rng.sample(range(2, 121), 3))
    hists = [grad_hist(rng, lens[0]), grad_hist(rng, lens[2]), grad_hist(rng, lens[1])]
    if desc.get('suite'):
        hists[1] = SUITE_COUNTS
    jobs = []
    lines = []
    for hi, counts in enumerate(hists):
        cs = ' '.join(str(x) for x in counts)
        pts = [(w0, c) for w0 in (0.01, 0.2, 0.5, 0.8, 0.99) for c in (1.0, 1.5, 5.0, 20.0, 75.0, 200.0)]
        pts += [(rng.uniform(0.001, 0.999), rng.uniform(1.0, 200.0)) for _ in range(30)]
        for (w0, c) in pts:
            hw = 1e-6 * min(w0, 1 - w0)
            hc = 1e-6 * max(1.0, c)
            if c - hc < 1.0:
                hc = 0.0          # one-sided at the bound: skip the c component there
            jobs.append((hi, w0, c, hw, hc))
            lines.append('LL %r %r %s' % (w0, c, cs))
            lines.append('GRAD %r %r %s' % (w0, c, cs))
            lines.append('LL %r %r %s' % (w0 + hw, c, cs))
            lines.append('LL %r %r %s' % (w0 - hw, c, cs))
            lines.append('LL %r %r %s' % (w0, c + hc, cs))
            lines.append('LL %r %r %s' % (w0, c - hc, cs))
    out = covfn(ctx, lines)
    for i, (hi, w0, c, hw, hc) in enumerate(jobs):
        counts = hists[hi]
        tot = float(sum(counts)) or 1.0
        o = out[6 * i:6 * i + 6]
        ll = float(o[0][1])
        g0, g1 = float(o[1][1]), float(o[1][2])
        res.evals += 1
        detail = {'counts': counts, 'w0': w0, 'c': c, 'histogram_lengths_evaluated_before_in_this_process': [len(h) for h in hists[:hi]]}
        ref = py_ll(w0, c, counts)
        if abs(ll - ref) > 1e-9 * max(1.0, abs(ref)):
            res.violate('C20:likelihood', 'log_likelihood(w0=%r, c=%r) on histogram %d of the process (%d bins; earlier ones %s) = %r, the stated mixture gives %r'
                        % (w0, c, hi + 1, len(counts), [len(h) for h in hists[:hi]], ll, ref), detail)
            continue
        res.count('likelihood_points')
        if hi > 0:
            res.count('likelihood_points_on_later_histograms_of_a_process')
        n0 = (float(o[2][1]) - float(o[3][1])) / (2 * hw)
        scale0 = tot * (1.0 / w0 + 1.0 / (1.0 - w0)) * 1e-7 + 1e-16 * abs(ll) / hw
        if abs(n0 - g0) > 1e-4 * abs(n0) + 50 * scale0:
            res.violate('C20:gradient:w0', 'd/dw0 at (w0=%r, c=%r): analytic %r, numerical %r' % (w0, c, g0, n0), detail)
            continue
        if hc:
            n1 = (float(o[4][1]) - float(o[5][1])) / (2 * hc)
            scale1 = tot * 1e-7 + 1e-16 * abs(ll) / hc
            if abs(n1 - g1) > 1e-4 * abs(n1) + 50 * scale1:
                res.violate('C20:gradient:c', 'd/dc at (w0=%r, c=%r): analytic %r, numerical %r' % (w0, c, g1, n1), detail)
                continue
        res.count('gradient_points')
        res.nontrivial.append(fingerprint(['grad', desc['seed'], i]))
    if res.sample is None:
        res.sample = {'kind': 'gradient identity', 'histogram_bins': [len(h) for h in hists], 'points': len(jobs), 'first_point': jobs[0][1:3]}


def run_cutoff(desc, ctx, res):
    rng = random.Random(desc['seed'])
    pts = [(rng.uniform(0.001, 0.999), rng.uniform(1.0, 200.0), rng.randint(1, 300)) for _ in range(3000)]
    out = covfn(ctx, ['CUT %r %r %d' % p for p in pts])
    for (w0, c, mx), o in zip(pts, out):
        want, margin = py_cutoff(w0, c, mx)
        res.evals += 1
        if margin < 1e-9:
            res.count('cutoff_tie_skipped')
            continue
        if int(o[1]) != want:
            res.violate('C20:find_cutoff', 'find_cutoff(w0=%r, c=%r, max=%d) = %s, definition gives %d' % (w0, c, mx, o[1], want), None)
        else:
            res.count('cutoff_points')
            res.nontrivial.append(fingerprint(['cut', w0, c, mx]))


def run_trunc(desc, ctx, res):
    """Truncation rule and cutoff/labels on given histograms whose tail sits exactly at, just below and just above 50."""
    rng = random.Random(desc['seed'])
    w, cc = rng.uniform(0.3, 0.9), rng.uniform(8, 40)
    n = rng.randint(int(cc) + 5, int(cc) + 40)
    tot = rng.choice([3e4, 1e5, 1e6])
    counts = [max(0, int(tot * math.exp(lse(comp_a(w, i + 1.0), comp_b(w, cc, i + 1.0))))) for i in range(n)]
    # shape the tail: a last bin with exactly 50 / 49 / 51 followed by smaller ones, sometimes an interior bin below 50
    last = rng.randint(max(2, n // 2), n - 1)
    edge = rng.choice([50, 50, 49, 51])
    for i in range(last, n):
        counts[i] = rng.randint(0, 49)
    counts[last] = edge
    if rng.random() < 0.3 and last > 4:
        counts[rng.randint(2, last - 1)] = rng.randint(0, 49)          # an interior gap must not truncate
    counts[last - 1] = max(counts[last - 1], 60)
    exp = list(counts)
    while exp and exp[-1] < 50:
        exp.pop()
    p = ctx.sh(ctx.bins['harness'], 'covfit', 31, *counts, timeout=300)
    if p.returncode != 0:
        raise Inconclusive('harness covfit failed: ' + p.stderr[-200:])
    hc = parse_harness_cov(p.stdout)
    res.evals += 1
    detail = {'counts': counts}
    if hc['counts'] != exp:
        res.violate('C20:truncation', 'histogram tail %s: table has %d rows, expected %d (last multiplicity with >= 50 k-mers)'
                    % (counts[-6:], len(hc['counts'] or []), len(exp)), detail)
        return
    res.count('truncation_cases')
    if edge == 50:
        res.count('truncation_exactly_50')
    w0, c, cutoff, fitted = hc['state']
    if hc['fit'][0] == 'ok' and fitted:
        want_cut, margin = py_cutoff(w0, c, len(exp))
        if margin >= 1e-9 and cutoff != want_cut:
            res.violate('C20:cutoff', 'given histogram: cutoff %d, definition gives %d at w0=%r c=%r' % (cutoff, want_cut, w0, c), detail)
            return
        if margin >= 1e-9:
            judge_table(res, 'C20:given', hc['table'], exp, w0, c, cutoff, detail, 'given histogram')
    res.nontrivial.append(fingerprint(['trunc', desc['seed']]))


def run_damaged(desc, ctx, res):
    """One malformed record (or a cut gzip stream) in the middle of a read file: `ska cov` either refuses or tabulates the exact
    multiplicities over every well-formed record; a table over the reads before the damage only is a silent loss."""
    import gzip
    k, rcmode = desc['k'], desc['rc']
    rng = random.Random(desc['seed'])
    reads, params = sim_reads(rng)
    which = rng.randrange(2)
    kind = desc['damage']
    recs = [['@r%d' % i, s_, '+', 'I' * len(s_)] for i, s_ in enumerate(reads[which])]
    bad = rng.randint(len(recs) // 4, max(len(recs) // 4, 3 * len(recs) // 4))
    wellformed = None
    if kind == 'length-mismatch':
        recs[bad][3] = recs[bad][3][:-1]
        wellformed = reads[which][:bad] + reads[which][bad + 1:]
        data = ''.join('\n'.join(r) + '\n' for r in recs).encode()
        name = 'd.fastq'
    elif kind == 'missing-plus':
        recs[bad][2] = ''
        wellformed = reads[which][:bad] + reads[which][bad + 1:]
        data = ''.join('\n'.join(r) + '\n' for r in recs).encode()
        name = 'd.fastq'
    else:
        raw = gzip.compress(''.join('\n'.join(r) + '\n' for r in recs).encode())
        data = raw[:len(raw) * rng.randint(30, 80) // 100]
        name = 'd.fastq.gz'
    ctx.write(name, data)
    ctx.write('o.fastq', ''.join('@r%d\n%s\n+\n%s\n' % (i, s_, 'I' * len(s_)) for i, s_ in enumerate(reads[1 - which])))
    pair = [ctx.path(name), ctx.path('o.fastq')] if which == 0 else [ctx.path('o.fastq'), ctx.path(name)]
    a = ctx.sh(ctx.ska, 'cov', *pair, '-k', k, *G.strand_flag(rcmode), timeout=600)
    res.evals += 1
    detail = dict(params, k=k, rc=rcmode, seed=desc['seed'], damage=kind, damaged_record=bad, damaged_file=which)
    if a.returncode != 0:
        res.count('damaged_input_refused')
        res.nontrivial.append(fingerprint(['damaged', desc['seed']]))
        return
    if wellformed is None:
        res.violate('C20:damaged:%s:accepted' % kind, 'k=%d: a read file cut in the middle of its gzip stream was accepted with exit 0' % k, detail)
        return
    cnt = count_split_kmers(wellformed + reads[1 - which], k, rcmode)
    hist = {}
    for v in cnt.values():
        hist[v] = hist.get(v, 0) + 1
    mx = max([m for m, v in hist.items() if v >= 50 and m <= 1000], default=0)
    exp_counts = [hist.get(m, 0) for m in range(1, mx + 1)]
    rows = [l.split('\t') for l in a.stdout.split('\n')[1:] if l]
    got = [int(r[1]) for r in rows]
    if got != exp_counts:
        d = [(i + 1, g, e) for i, (g, e) in enumerate(zip(got, exp_counts)) if g != e][:4]
        res.violate('C20:damaged:%s:table' % kind, 'k=%d rc=%s: a read file with one malformed record (%s) was accepted with exit 0 and the table (%d rows) is not the exact '
                    'count over the well-formed records (%d rows); (count, printed, exact): %s' % (k, rcmode, kind, len(got), len(exp_counts), d), detail)
    else:
        res.count('damaged_input_accepted_exact')
        res.nontrivial.append(fingerprint(['damaged', desc['seed']]))


def run_case(desc, ctx):
    res = Result()
    if desc['kind'] == 'damaged':
        run_damaged(desc, ctx, res)
        return res
    if desc['kind'] == 'trunc':
        run_trunc(desc, ctx, res)
        return res
    if desc['kind'] == 'reads':
        run_reads(desc, ctx, res)
    elif desc['kind'] == 'grad':
        run_grad(desc, ctx, res)
    else:
        run_cutoff(desc, ctx, res)
    return res
