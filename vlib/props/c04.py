"""C04 - Mapped alignment equals the union of matched k-mer windows on the reference."""
import random

from .. import gen as G
from .. import model as M
from ..run import Result, fingerprint

ID = 'C04'
LEVEL = 'exploration'
BUDGET = {'quick': 150, 'thorough': 1800}
CHUNK = 4
RULE = ('Cases: a reference (1..4 contigs; a few per run of 80..600 kb in two contigs with samples carrying SNPs and ambiguity codes along the whole length; tracts in which one split k-mer occurs 100..513 times (among them exactly 255, 256, 257) mapped against themselves with --repeat-mask; three per run mapped by 257..260 samples with sites where exactly 255/256/257 of them differ from the reference; contigs of length k-2/k/k+1; contigs without any window before, between and '
        'after contigs with repeats; N runs; lower-case stretches; repeats within and across contigs in both orientations) '
        'and 1..3 (sometimes 9..24) samples, mapped with --threads 1..4 (mutated copies with SNPs/indels, dropped/reordered/reverse-complemented contigs, duplicated '
        'content giving ambiguity codes; or an arbitrary subset of reference windows with present/absent runs of every '
        'length 0..2k).  The samples are built, the table is read back with nk, and every character of `ska map` '
        '[--ambig-mask] [--repeat-mask] is compared with the position-wise definition evaluated on that table.  '
        'Forced k in {5,7,9,11,15,21,31,33,41,63} plus random odd k, both strand modes, all mask combinations; one case in thirteen gives the sample FASTA files to `ska map` directly (default k = 17) instead of a stored file.  '
        'Non-trivial: at least one reference k-mer matches a sample; distinct = distinct (k, mode, flags, reference, samples).')
ASSUMPTIONS = ['the sample dictionary is taken from the real .skf (nk --full-info), so this oracle does not inherit C01',
               'position-wise definition as in DESIGN.md section 6 C04']
KINDS = ['random', 'shortcontig', 'pattern', 'selfmap', 'lower', 'palin']
REQUIRED = {t: ['kind:' + x for x in KINDS] + ['flags:am', 'flags:rm', 'flags:am+rm', 'flags:none', 'repeat_masked_positions',
                                                'selfmap_exact', 'lowercase_ref_positions', 'ref_contig_without_kmers_before_repeat', 'files_with_9+_samples', 'route:fasta_inputs', 'references_of_80kb+', 'kind:crowd', 'kind:tract', 'files_with_a_repeated_sample_name']
            for t in ('quick', 'thorough')}
FORCED_K = [5, 7, 9, 11, 15, 21, 31, 33, 41, 63]


def builds(tier):
    return ['rel', 'chk']


def plan(tier, seed, rng, scale):
    descs = []
    for k in FORCED_K:
        for rcmode in (True, False):
            for kind in KINDS:
                for fl in range(4):
                    descs.append({'k': k, 'rc': rcmode, 'kind': kind, 'am': bool(fl & 1), 'rm': bool(fl & 2),
                                  'seed': rng.getrandbits(32)})
    n = int((8000 if tier == 'quick' else 80000) * scale)
    for i in range(n):
        k = rng.choice(FORCED_K) if rng.random() < 0.6 else rng.choice(G.ALL_K)
        descs.append({'k': k, 'rc': rng.random() < 0.7, 'kind': rng.choice(KINDS + ['random', 'pattern']),
                      'am': rng.random() < 0.4, 'rm': rng.random() < 0.5, 'seed': rng.getrandbits(32),
                      'big': tier == 'thorough' and i % 40 == 0})
    for i in range(n // 12):
        # the input route without a stored file: `ska map ref.fa s0.fa s1.fa ...` builds at the default k (17, both strands)
        descs.insert(rng.randrange(len(descs)), {'k': 17, 'rc': True, 'kind': rng.choice(KINDS + ['random', 'pattern']), 'am': rng.random() < 0.4,
                                                 'rm': rng.random() < 0.5, 'seed': rng.getrandbits(32), 'fasta_route': True})
    for i, hz in enumerate([80000, 300000] if tier == 'quick' else [80000, 300000, 140000, 300000, 600000, 80000]):
        descs.insert(25 + 13 * i, {'k': rng.choice([21, 31, 33]), 'rc': rng.random() < 0.7, 'kind': 'random', 'am': i % 2 == 0, 'rm': False,
                                   'seed': rng.getrandbits(32), 'huge': hz})
    for i in range(8 if tier == 'quick' else 40):
        descs.insert(33 + 5 * i, {'k': rng.choice([9, 15, 21, 31, 33]), 'rc': rng.random() < 0.7, 'kind': 'tract', 'am': rng.random() < 0.3, 'rm': i % 4 != 3,
                                  'seed': rng.getrandbits(32)})
    for i in range(3 if tier == 'quick' else 12):
        descs.insert(30 + 7 * i, {'k': rng.choice([15, 21, 31, 33]), 'rc': rng.random() < 0.7, 'kind': 'crowd', 'am': False, 'rm': False, 'seed': rng.getrandbits(32)})
    for i, d in enumerate(descs):
        d['chk'] = (i % 6 == 0) and not d.get('huge') and d['kind'] != 'crowd'
    return descs


def map_inputs(desc, ctx, st):
    # a single input file is always taken for a stored file (documented), so the FASTA route needs two samples or more
    return st['files'] if desc.get('fasta_route') and len(st['files']) >= 2 else [ctx.path('o.skf')]


def mutate(rng, s, nmut):
    s = list(s)
    for _ in range(nmut):
        if not s:
            break
        i = rng.randrange(len(s))
        t = rng.random()
        if t < 0.6:
            s[i] = rng.choice('ACGT')
        elif t < 0.8:
            del s[i]
        else:
            s.insert(i, rng.choice('ACGT'))
    return ''.join(s)


def gen_ref(rng, k, kind, big=False, huge=None):
    h = (k - 1) // 2
    contigs = []
    if kind == 'crowd':
        return [G.rseq(rng, rng.randint(5 * k, 8 * k)), G.rseq(rng, rng.randint(3 * k, 5 * k))]
    if kind == 'tract':
        # a homopolymer / tandem tract in which one split k-mer occurs 255, 256, 257 (or some other number of) times
        unit = rng.choice(['A', 'A', 'T', 'C', 'AC', 'AG'])
        copies = rng.choice([255, 256, 257, 256, 100, 300, 513])
        L = k + (copies - 1) * len(unit)
        return [G.rseq(rng, rng.randint(k, 3 * k)) + (unit * (L // len(unit) + 1))[:L] + G.rseq(rng, rng.randint(k, 3 * k))] + \
            ([G.rseq(rng, 3 * k)] if rng.random() < 0.5 else [])
    if huge:
        # tens to hundreds of kilobases: more matched k-mers, columns and records than any block or buffer of the writers
        n1 = rng.randint(huge // 3, 2 * huge // 3)
        return [G.rseq(rng, n1), G.rseq(rng, huge - n1)]
    if kind == 'selfmap':
        # repeat-free genome (checked), no N, upper case
        for _ in range(200):
            contigs = [G.rseq(rng, rng.randint(k, (40 if big else 6) * k)) for _ in range(rng.randint(1, 3))]
            seen = set()
            ok = True
            for c in contigs:
                for _i, w in M.windows(c, k):
                    sk, _m, _f, pal = M.canon_split(w, True)
                    if sk in seen or pal:
                        ok = False
                        break
                    seen.add(sk)
                if not ok:
                    break
            if ok:
                return contigs
        return [G.rseq(rng, k + 1)]
    if kind == 'palin':
        arm = G.rseq(rng, h)
        c = G.rseq(rng, rng.randint(0, k)) + arm + rng.choice('ACGT') + M.rc(arm) + G.rseq(rng, rng.randint(0, k))
        contigs = [c]
        if rng.random() < 0.5:
            contigs.append(G.rseq(rng, rng.randint(k, 3 * k)))
        return contigs
    ncont = rng.randint(1, 4)
    for ci in range(ncont):
        L = rng.choice([k - 2, k, k + 1, 2 * k, 3 * k + rng.randint(0, 40), rng.randint(k, (60 if big else 8) * k)])
        L = max(L, 1)
        s = G.rseq(rng, L)
        if rng.random() < 0.3 and L > k:
            i = rng.randrange(L)
            s = s[:i] + 'N' * rng.randint(1, 3) + s[i + 1:]
        if rng.random() < 0.15 and len(s) > k + 1:
            i = len(s) - k - 1                     # exactly k bases follow the N
            s = s[:i] + 'N' + s[i + 1:]
        if rng.random() < 0.35 and contigs:
            c0 = contigs[rng.randrange(len(contigs))].upper()
            if len(c0) >= k:
                a = rng.randrange(len(c0))
                b = min(len(c0), a + rng.randint(k, 2 * k))
                chunk = c0[a:b]
                if rng.random() < 0.5 and 'N' not in chunk:
                    chunk = M.rc(chunk)
                s = s + chunk + G.rseq(rng, rng.randint(0, k))
        if rng.random() < 0.2 and len(s) > 2 * k:
            # repeat within the contig, possibly overlapping
            a = rng.randrange(len(s) - k)
            chunk = s[a:a + rng.randint(k, 2 * k)].upper()
            if 'N' not in chunk:
                s = s + chunk[rng.randint(0, 3):]
        if kind == 'lower' or rng.random() < 0.2:
            a = rng.randrange(len(s))
            b = min(len(s), a + rng.randint(1, 2 * k))
            s = s[:a] + s[a:b].lower() + s[b:]
        contigs.append(s)
    if kind == 'shortcontig':
        # contigs without any window before, between and after a pair of contigs sharing a repeat
        core = G.rseq(rng, rng.randint(k, 2 * k))
        c1 = G.rseq(rng, rng.randint(0, k)) + core + G.rseq(rng, rng.randint(0, k))
        c2 = G.rseq(rng, rng.randint(0, k)) + (core if rng.random() < 0.5 else M.rc(core)) + G.rseq(rng, rng.randint(0, k))
        short = lambda: rng.choice([G.rseq(rng, rng.randint(1, k - 1)), 'N' * rng.randint(1, k), G.rseq(rng, h) + 'N' + G.rseq(rng, h)])
        contigs = [short(), c1, short(), c2, short()]
        if rng.random() < 0.5:
            contigs = contigs[:rng.choice([3, 4])] + contigs[rng.choice([3, 4]):]
    return contigs


def gen_samples(rng, ref, k, kind, rcmode, huge=None):
    h = (k - 1) // 2
    samples = []
    if kind == 'crowd':
        # hundreds of samples: sites at which exactly 255 / 256 / 257 / n-1 samples differ from the reference
        ns_ = rng.choice([257, 258, 260])
        flat = [list(c) for c in ref]
        per = [[list(c) for c in ref] for _ in range(ns_)]
        sites = []
        for ci, c in enumerate(ref):
            p_ = k + rng.randint(0, 5)
            while p_ < len(c) - k:
                sites.append((ci, p_))
                p_ += k + 2 + rng.randint(0, k)
        for (ci, p_), want in zip(sites, [256, 255, 257, ns_ - 1, 256, 1, 2] * 3):
            alt = {'A': 'C', 'C': 'G', 'G': 'T', 'T': 'A'}[ref[ci][p_].upper()]
            for si in rng.sample(range(ns_), min(want, ns_)):
                per[si][ci][p_] = alt
        return [[''.join(c) if not (rcmode and rng.random() < 0.3) else M.rc(''.join(c)) for c in smp] for smp in per]
    if huge:
        for si in range(2):
            recs = []
            for c in ref:
                t = list(c)
                for _ in range(len(t) // 150):
                    t[rng.randrange(len(t))] = rng.choice('ACGT')
                t = ''.join(t)
                if si == 1:
                    t = t[:rng.randint(len(t) // 2, len(t))]              # the tail of each contig unmatched
                recs.append(M.rc(t) if rcmode and rng.random() < 0.5 else t)
                if si == 0:
                    # the unchanged contig plus a copy that differs at every (h+1)-th base: every reference k-mer is present, and one
                    # centre in every h+1 carries an ambiguity code whose neighbours all match - wherever a writer cuts its work
                    # (every 2^16 matches, say), a non-reference middle base sits next to the cut
                    recs.append(c)
                    t2 = list(c)
                    r_ = rng.randrange(h + 1)
                    for i_ in range(r_, len(t2), h + 1):
                        t2[i_] = {'A': 'C', 'C': 'G', 'G': 'T', 'T': 'A'}[t2[i_]]
                    recs.append(''.join(t2))
            samples.append(recs)
        return samples
    if kind in ('selfmap', 'tract'):
        return [[c for c in ref]]
    if kind == 'pattern':
        for _ in range(rng.randint(1, 3)):
            recs = []
            for c in ref:
                cu = c.upper()
                centres = [i + h for i, _w in M.windows(cu, k)]
                pos = 0
                present = rng.random() < 0.5
                while pos < len(centres):
                    run = rng.randint(0, 2 * k + 1)
                    if present:
                        for ce in centres[pos:pos + run]:
                            w = cu[ce - h:ce + h + 1]
                            if rng.random() < 0.15:
                                w = w[:h] + rng.choice('ACGT') + w[h + 1:]
                            if rcmode and rng.random() < 0.5:
                                w = M.rc(w)
                            recs.append(w + 'N')
                            if rng.random() < 0.05:
                                recs.append(w[:h] + rng.choice('ACGT') + w[h + 1:] + 'N')
                    pos += run
                    present = not present
            if not recs:
                recs = [G.rseq(rng, k)]
            samples.append(recs)
        return samples
    for _ in range(rng.randint(1, 3) if rng.random() < 0.85 else rng.randint(9, 24)):
        recs = []
        for c in ref:
            cu = c.upper()
            if rng.random() < 0.15:
                continue
            m = mutate(rng, cu, rng.choice([0, 1, 2, 5]))
            if rcmode and rng.random() < 0.3:
                m = M.rc_n(m)
            if m:
                recs.append(m)
        if rng.random() < 0.3 and recs:
            recs.append(mutate(rng, recs[0], rng.choice([1, 2, 5])))      # duplicated content -> ambiguity codes
        if not recs:
            recs = [G.rseq(rng, 2 * k)]
        rng.shuffle(recs)
        samples.append(recs)
    return samples


def ref_windows(ref, k, rcmode):
    """[(contig, absolute offset of contig, centre, arms, flipped)] and multiplicity of arms in the reference."""
    h = (k - 1) // 2
    wins = []
    cnt = {}
    off = 0
    for ci, c in enumerate(ref):
        for i, w in M.windows(c, k):
            sk, _m, flip, _pal = M.canon_split(w, rcmode)
            cnt[sk] = cnt.get(sk, 0) + 1
            wins.append((ci, off, i + h, sk, flip))
        off += len(c)
    return wins, cnt


def expected_map(ref, table, nsamples, k, rcmode, ambig_mask, repeat_mask):
    h = (k - 1) // 2
    total = sum(len(c) for c in ref)
    out = [['-'] * total for _ in range(nsamples)]
    wins, cnt = ref_windows(ref, k, rcmode)
    upper = [c.upper() for c in ref]
    matched = 0
    for (ci, off, p, sk, flip) in wins:           # rule (2): flanks
        row = table.get(sk)
        if row is None:
            continue
        for s in range(nsamples):
            if row[s] != '-':
                matched += 1
                for q in range(p - h, p + h + 1):
                    out[s][off + q] = upper[ci][q]
    for (ci, off, p, sk, flip) in wins:           # rule (1): middle bases take precedence
        row = table.get(sk)
        if row is None:
            continue
        for s in range(nsamples):
            b = row[s]
            if b != '-':
                if flip:
                    b = M.comp_code(b)
                if ambig_mask and M.is_ambig(b):
                    b = 'N'
                out[s][off + p] = b
    masked = 0
    if repeat_mask:
        for (ci, off, p, sk, flip) in wins:
            if cnt[sk] > 1:
                for s in range(nsamples):
                    for q in range(p - h, p + h + 1):
                        if out[s][off + q] != '-':
                            if out[s][off + q] != 'N':
                                masked += 1
                            out[s][off + q] = 'N'
    return [''.join(x) for x in out], matched, masked


def flags_of(desc):
    return (['--ambig-mask'] if desc['am'] else []) + (['--repeat-mask'] if desc['rm'] else [])


def setup(desc, ctx, res, binary):
    """Generate inputs, build the samples, read the table back.  Returns dict or None."""
    k, rcmode = desc['k'], desc['rc']
    rng = random.Random(desc['seed'])
    ref = gen_ref(rng, k, desc['kind'], desc.get('big', False), desc.get('huge'))
    samples = gen_samples(rng, ref, k, desc['kind'], rcmode, desc.get('huge'))
    if desc.get('iupac_ref'):
        # (C05 only) a few reference bases replaced by ambiguity codes after the samples were derived
        r2 = random.Random(desc['seed'] ^ 0x1c0de)
        ref = [''.join(r2.choice('RYSWKMBDHVUu') if (ch in 'ACGTacgt' and r2.random() < 0.03) else ch for ch in c) for c in ref]
    # contig names: c<i>, or names as they occur in practice, in an order that is not their sorted order
    CPOOL = ['chr10', 'chr2', 'NC_000913.3', 'contig-5|x', 'scaffold.12', 'plasmid_pX', 'MT', 'chrUn_gl000220', '1', 'Z9']
    names = ['c%d' % i for i in range(len(ref))]
    if desc['seed'] % 3 == 1:
        names = random.Random(desc['seed'] ^ 0xc0).sample(CPOOL, len(ref))
        res.count('unusual_contig_names')
    elif desc['seed'] % 12 == 2 and len(ref) >= 2:
        # two contigs of the same name (concatenated assemblies): records keep the name their contig has in the input
        names[1] = names[0]
        res.count('duplicate_contig_names')
    with open(ctx.path('ref.fa'), 'w') as f:
        for i, c in enumerate(ref):
            f.write('>%s some description\n%s\n' % (names[i], c))
    files = [G.write_fa(ctx.path('s%d.fa' % i), recs) for i, recs in enumerate(samples)]
    snames = ['s%d' % i for i in range(len(samples))]
    if len(samples) >= 2 and desc['seed'] % 11 == 5 and not desc.get('fasta_route') and not desc.get('unique_sample_names'):
        # two samples of the same name (the same isolate from two runs): both are samples of the file and both get their row
        r4 = random.Random(desc['seed'] ^ 0x5a)
        i_, j_ = sorted(r4.sample(range(len(samples)), 2))
        snames[j_] = snames[i_]
        lst = ctx.write('samples.list', ''.join('%s\t%s\n' % (snames[x], files[x]) for x in range(len(samples))))
        p = G.ska_build(ctx, ctx.path('o'), ['-f', lst], k, rcmode, binary=binary)
        res.count('files_with_a_repeated_sample_name')
    else:
        p = G.ska_build(ctx, ctx.path('o'), files, k, rcmode, binary=binary)
    if p.returncode != 0:
        return None
    hdr, table = G.nk(ctx, ctx.path('o.skf'), binary=binary)
    return {'ref': ref, 'samples': samples, 'table': table, 'names': snames,
            'contig_names': names, 'files': files}


def ref_stats(res, ref, k, rcmode):
    wins, cnt = ref_windows(ref, k, rcmode)
    lower = sum(1 for c in ref for ch in c if ch.islower())
    if lower:
        res.count('lowercase_ref_positions', lower)
    # a contig without k-mers that precedes a contig holding a repeated k-mer
    has = [any(w[0] == ci for w in wins) for ci in range(len(ref))]
    rep_contigs = {w[0] for w in wins if cnt[w[3]] > 1}
    if any((not has[ci]) and any(r > ci for r in rep_contigs) for ci in range(len(ref))):
        res.count('ref_contig_without_kmers_before_repeat')
    return wins, cnt


def run_case(desc, ctx):
    res = Result()
    k, rcmode = desc['k'], desc['rc']
    fl = ('am' if desc['am'] else '') + ('+' if desc['am'] and desc['rm'] else '') + ('rm' if desc['rm'] else '')
    res.count('kind:' + desc['kind'])
    res.count('flags:' + (fl or 'none'))
    res.see('k_rc', '%d/%s' % (k, 'rc' if rcmode else 'ss'))
    for variant in (['rel', 'chk'] if desc.get('chk') else ['rel']):
        b = ctx.bins[variant]
        try:
            st = setup(desc, ctx, res, b)
        except (G.NkFailed, ValueError) as e:
            res.count('setup_failed')
            return res
        if st is None:
            res.count('sample_build_refused')
            return res
        ref, table, names = st['ref'], st['table'], st['names']
        exp, matched, masked = expected_map(ref, table, len(names), k, rcmode, desc['am'], desc['rm'])
        th = ['--threads', [1, 1, 2, 3, 4][desc['seed'] % 5]]
        if len(names) >= 9 and variant == 'rel':
            res.count('files_with_9+_samples')
        if desc.get('huge') and variant == 'rel':
            res.count('references_of_80kb+')
            res.see('huge_matched', matched)
        if desc['seed'] % 4 == 2:
            # output to a file that already exists and is longer than the new alignment
            ctx.write('map.out', '>old\n' + 'ACGT' * (sum(len(c) for c in ref) + 50) + '\n>older\nAC\n')
            m = ctx.sh(b, 'map', ctx.path('ref.fa'), *map_inputs(desc, ctx, st), *flags_of(desc), *th, '-o', ctx.path('map.out'))
            if m.returncode == 0:
                m = type('R', (), {'returncode': 0, 'stdout': open(ctx.path('map.out')).read(), 'stderr': m.stderr})()
            if variant == 'rel':
                res.count('output_file_existed')
        else:
            m = ctx.sh(b, 'map', ctx.path('ref.fa'), *map_inputs(desc, ctx, st), *flags_of(desc), *th)
        if desc.get('fasta_route') and variant == 'rel' and len(st['files']) >= 2:
            res.count('route:fasta_inputs')
        if variant == 'chk':
            res.count('chk_runs')
            if m.returncode != 0 and 'overflow' in m.stderr:
                res.count('chk_overflow_panics')
                res.see('chk_overflow_site', m.stderr.split('panicked at ')[-1].split('\n')[0][:80])
                continue
        else:
            res.evals += 1
            ref_stats(res, ref, k, rcmode)
        if m.returncode != 0:
            if matched:
                res.violate('C04:%s:map-failed' % desc['kind'],
                            'k=%d rc=%s %s: map failed although %d reference k-mers match: %s'
                            % (k, rcmode, fl, matched, m.stderr.strip()[-200:]),
                            {'ref': ref, 'samples': st['samples']})
            else:
                res.count('no_match_refused')
            continue
        gn, gs = M.parse_fasta(m.stdout)
        bad = []
        if gn != names:
            bad.append('names %s' % gn)
        if gs != exp:
            for a, e in zip(gs, exp):
                if a != e:
                    pos = [i for i in range(min(len(a), len(e))) if a[i] != e[i]][:5]
                    bad.append('len %d/%d first differing positions %s got %r expected %r'
                               % (len(a), len(e), pos, a[max(0, (pos or [0])[0] - 5):(pos or [0])[0] + 10],
                                  e[max(0, (pos or [0])[0] - 5):(pos or [0])[0] + 10]))
                    break
            if len(gs) != len(exp):
                bad.append('%d sequences, expected %d' % (len(gs), len(exp)))
        if bad:
            res.violate('C04:%s:%s:aln' % (desc['kind'], fl or 'none'),
                        'k=%d rc=%s flags=%s kind=%s (%s): %s' % (k, rcmode, fl or 'none', desc['kind'], variant, '; '.join(bad)),
                        {'ref': ref, 'samples': st['samples'], 'got': gs, 'expected': exp})
            continue
        if variant == 'rel':
            res.count('positions_compared', sum(len(e) for e in exp))
            res.count('matched_kmers', matched)
            if masked:
                res.count('repeat_masked_positions', masked)
            if desc['kind'] == 'selfmap' and not desc['am']:
                want = ''.join(c.upper() for c in ref)
                if not desc['rm'] and gs[0] != want:
                    res.violate('C04:selfmap', 'k=%d: a repeat-free genome mapped against itself is not reproduced' % k,
                                {'ref': ref, 'got': gs[0]})
                else:
                    res.count('selfmap_exact')
            if matched:
                res.nontrivial.append(fingerprint([k, rcmode, fl, ref, st['samples']]))
            if res.sample is None and desc['kind'] in ('shortcontig', 'pattern'):
                res.sample = {'k': k, 'rc': rcmode, 'flags': fl, 'kind': desc['kind'], 'reference': ref,
                              'samples': st['samples'], 'alignment': gs}
    return res
