"""C18 - ska lo indel calls are real and genotyped correctly."""
import os
import random

from .. import gen as G
from .. import model as M
from ..run import Result, fingerprint, Inconclusive
from . import c17

ID = 'C18'
LEVEL = 'exploration'
BUDGET = {'quick': 200, 'thorough': 2400}
CHUNK = 2
RULE = ('Cases: an ancestor with 1..3 planted insertions/deletions of length 1..10 (< k), >= 4k apart and from the ends, every '
        'non-trivial carrier set of 3..8 samples (one case in seven: 10..13 samples of which one is a partial assembly that does not reach one of the indels and must be genotyped missing there; in a third of those one sample also holds a diverged copy of the surroundings of an indel as a second contig, which puts an ambiguity code on the split k-mer that starts the branch of the indel), k in {11,15,21,31}, threads 1..4 (a share with seeded jitter), samples in random '
        'orientation, a quarter of the runs writing over larger output files of an earlier run under the same prefix, a third with dots in the output prefix, -m at its default, 0, 0.1 and 0.5; the generator rejects inputs in which a (k-1)-mer occurs at two different loci (or on both strands, or is self-complementary) over the union of the samples, the ancestor and the single-indel genomes.  '
        'Every record of <out>_indels.vcf is checked by substring tests on the sample sequences the generator wrote: '
        'before+REF+after (or its reverse complement; - = empty) occurs in exactly the samples genotyped 0, before+ALT+after in '
        'exactly those genotyped 1, no sample is genotyped for an allele it lacks.  Each record must match one planted indel by '
        'location (one allele string lies in the ancestor, the other in the ancestor with only that indel applied), length and '
        'carrier set; no planted indel may be reported twice.  Recall is a population statistic of the run: at least 90% of the '
        'planted indels must be reported (inconclusive below 500 planted), over the whole run and over each of its three input populations: random indels, indels that repeat their flank (homopolymer / tandem-unit length changes), and indels whose junction lies inside a split k-mer with self-complementary arms (a quarter of the cases each for the last two).  Non-trivial: >= 1 planted indel; distinct = inputs.')
ASSUMPTIONS = ['the sample sequences written by the generator are the ground truth',
               'recall is judged on the aggregate of a run with a minimum sample size of 500 planted indels']
REQUIRED = {t: ['records_checked', 'planted', 'planted:plain', 'planted:flank', 'planted:palin', 'insertions', 'deletions', 'threads>1', 'multi_indel_inputs', 'headers_checked', 'runs_over_existing_output', 'dotted_output_prefix', 'runs_with_-m_0', 'partial_assemblies', 'samples_with_a_diverged_duplicate_near_an_indel', 'runs_with_-v', 'inputs_with_the_same_insertion_at_two_loci'] for t in ('quick', 'thorough')}
KS = [11, 15, 21, 31]


def builds(tier):
    return ['rel']


def plan(tier, seed, rng, scale):
    n = int((4000 if tier == 'quick' else 40000) * scale)
    descs = []
    for i in range(n):
        descs.append({'k': KS[i % 4], 'seed': rng.getrandbits(32), 'threads': rng.choice([1, 1, 2, 3, 4]),
                      'jitter': rng.getrandbits(16) if rng.random() < 0.25 else None,
                      'flank': True if i % 4 == 2 else ('palin' if i % 4 == 3 else False), 'partial': i % 7 == 3})
    return descs


def sample_unique(seqs, k1):
    for t in seqs:
        seen = set()
        for i in range(len(t) - k1 + 1):
            w = t[i:i + k1]
            r = M.rc(w)
            if w == r or w in seen or r in seen:
                return False
            seen.add(w)
    return True


def shifted(anc, indel, norm):
    """The same indel written at its leftmost ('L') or rightmost ('R') equivalent position."""
    s, kind, ln, ins = indel
    if kind == 'ins':
        if norm == 'L':
            while s > 0 and anc[s - 1] == ins[-1]:
                ins = ins[-1] + ins[:-1]
                s -= 1
        else:
            while s < len(anc) and anc[s] == ins[0]:
                ins = ins[1:] + ins[0]
                s += 1
    else:
        if norm == 'L':
            while s > 0 and anc[s - 1] == anc[s + ln - 1]:
                s -= 1
        else:
            while s + ln < len(anc) and anc[s] == anc[s + ln]:
                s += 1
    return (s, kind, ln, ins)


def with_origins(anc, indels, which, norm='L'):
    """Sample sequence with, per base, where it comes from: ancestor index, or (indel, offset) for inserted bases.
    Indels are first written at their leftmost / rightmost equivalent position, so that an indel that repeats its flank
    (tandem unit, homopolymer) has a well-defined alignment."""
    seq = [(c, i) for i, c in enumerate(anc)]
    for j, ind in sorted(enumerate(indels), key=lambda x: -x[1][0]):
        if j in which:
            s, kind, ln, ins = shifted(anc, ind, norm)
            if kind == 'ins':
                seq[s:s] = [(c, ('i', j, o)) for o, c in enumerate(ins)]
            else:
                del seq[s:s + ln]
    return ''.join(c for c, _o in seq), [o for _c, o in seq]


def union_unique_by_locus(genomes, k1):
    """Every k1-mer over the union of the genomes occurs at one locus only - the same bases of the ancestor / of the same
    insertion under the leftmost or under the rightmost placement of the indels - on one strand only, and none is
    self-complementary (DESIGN.md section 8).  `genomes` = [(sequence, origins under L, origins under R)]."""
    locL, locR, strand = {}, {}, {}
    okL, okR = {}, {}
    for seq, orgL, orgR in genomes:
        for i in range(len(seq) - k1 + 1):
            w = seq[i:i + k1]
            r = M.rc(w)
            if w == r:
                return False
            if strand.setdefault(w, 'f') != 'f' or strand.setdefault(r, 'r') != 'r':
                return False
            oL, oR = tuple(orgL[i:i + k1]), tuple(orgR[i:i + k1])
            if locL.setdefault(w, oL) != oL:
                okL[w] = False
            if locR.setdefault(w, oR) != oR:
                okR[w] = False
            if okL.get(w) is False and okR.get(w) is False:
                return False
    return True


def apply_indels(anc, indels, which):
    t = anc
    for j, (s, kind, ln, ins) in sorted(enumerate(indels), key=lambda x: -x[1][0]):
        if j in which:
            t = t[:s] + ins + t[s:] if kind == 'ins' else t[:s] + t[s + ln:]
    return t


def gen(rng, k, ns, flank_repeat=False):
    same_event = rng.random() < 0.3 and not flank_repeat
    for _ in range(300):
        nind = rng.randint(1, 3) if not same_event else rng.randint(2, 3)
        L = 8 * k + (nind - 1) * (4 * k + rng.randint(0, k)) + rng.randint(0, 2 * k)
        anc = G.rseq(rng, L)
        sites = []
        p = 4 * k + rng.randint(0, k // 2)
        for _i in range(nind):
            if p >= L - 4 * k - 10:
                break
            sites.append(p)
            p += 4 * k + 10 + rng.randint(0, k)
        if not sites:
            continue
        indels = []
        carriers = []
        for s in sites:
            ln = rng.randint(1, min(10, k - 1))
            kind = rng.choice(['ins', 'del']) if not same_event else 'ins'
            if flank_repeat == 'palin':
                # the carrier-side (insertion) or ancestor-side (deletion) sequence around the junction is L.m.rc(L):
                # a window whose two arms are reverse complements of each other spans the indel
                h = (k - 1) // 2
                L_ = G.rseq(rng, h)
                P = L_ + rng.choice('ACGT') + M.rc(L_)
                ln = rng.randint(1, min(6, k - 3))
                a = rng.randint(1, k - ln - 1)
                kind = rng.choice(['ins', 'del'])
                if kind == 'ins':
                    anc = anc[:s - a] + P[:a] + P[a + ln:] + anc[s - a + k - ln:]
                    indels.append((s, 'ins', ln, P[a:a + ln]))
                else:
                    anc = anc[:s - a] + P + anc[s - a + k:]
                    indels.append((s, 'del', ln, None))
                while True:
                    car = [rng.random() < 0.5 for _ in range(ns)]
                    if any(car) and not all(car):
                        break
                carriers.append(car)
                continue
            if flank_repeat:
                # the indel repeats its flank: homopolymer / tandem-unit length change (still unique (k-1)-mers, checked below)
                ln = rng.randint(1, 4)
                unit = G.rseq(rng, ln)
                kind = rng.choice(['ins', 'del'])
                if kind == 'ins':
                    anc = anc[:s] + unit + anc[s + ln:]          # one copy in the ancestor, carriers get a second one
                else:
                    anc = anc[:s] + unit + unit + anc[s + 2 * ln:]   # two copies in the ancestor, carriers lose one
            while True:
                car = [rng.random() < 0.5 for _ in range(ns)]
                if any(car) and not all(car):
                    break
            ins_ = (anc[s:s + ln] if flank_repeat else G.rseq(rng, ln)) if kind == 'ins' else None
            if same_event and indels and not flank_repeat and indels[0][1] == 'ins' and kind == 'ins':
                # the same insertion (same inserted bases, same carriers) at another locus: two records that agree in everything but
                # their flanks
                ln, ins_, car = indels[0][2], indels[0][3], list(carriers[0])
            indels.append((s, kind, ln, ins_))
            carriers.append(car)
        ss = [apply_indels(anc, indels, {j for j in range(len(indels)) if carriers[j][i]}) for i in range(ns)]
        singles = [apply_indels(anc, indels, {j}) for j in range(len(indels))]
        if not sample_unique(ss + [anc] + singles, k - 1):
            continue
        sets_ = [{j for j in range(len(indels)) if carriers[j][i]} for i in range(ns)] + [set()] + [{j} for j in range(len(indels))]
        genomes = []
        for w_ in sets_:
            sL, oL = with_origins(anc, indels, w_, 'L')
            sR, oR = with_origins(anc, indels, w_, 'R')
            if sL != sR:
                raise AssertionError('generator inconsistency')
            genomes.append((sL, oL, oR))
        if [g_[0] for g_ in genomes[:ns]] != ss:
            raise AssertionError('generator inconsistency')
        if union_unique_by_locus(genomes, k - 1):
            return anc, ss, indels, carriers, singles
    return None


def has(seq, s):
    return s in seq or M.rc(s) in seq


def run_case(desc, ctx):
    res = Result()
    k = desc['k']
    rng = random.Random(desc['seed'])
    ns = rng.randint(3, 8) if not desc.get('partial') else rng.randint(10, 13)
    g = gen(rng, k, ns, desc.get('flank', False))
    if g is None:
        res.count('generator_gave_up')
        return res
    anc, ss, indels, carriers, singles = g
    dupcontig = None
    if desc.get('partial'):
        # ten or more samples, one or two of them partial assemblies that end before (or start after) one of the indels: such a
        # sample carries neither allele there and must be genotyped '.', whatever it was genotyped in another record
        ss = list(ss)
        for t_ in rng.sample(range(ns), 1):
            # only a sample without which every indel still has a carrier and a non-carrier (otherwise cutting it short could leave
            # an input without any difference, which `lo` rightly refuses)
            if not all(any(c for i_, c in enumerate(car) if i_ != t_) and not all(c for i_, c in enumerate(car) if i_ != t_) for car in carriers):
                continue
            j_ = rng.randrange(len(indels))
            a_ = indels[j_][0]
            anchor = anc[a_ - 2 * k - k:a_ - 2 * k] if rng.random() < 0.5 else anc[a_ + 2 * k + 12:a_ + 3 * k + 12]
            pos_ = ss[t_].find(anchor)
            if pos_ < 0 or len(anchor) < k:
                continue
            if anchor == anc[a_ - 2 * k - k:a_ - 2 * k]:
                cutseq = ss[t_][:pos_ + k]                  # ends before indel j_
            else:
                cutseq = ss[t_][pos_:]                     # starts after indel j_
            if len(cutseq) >= 3 * k:
                ss[t_] = cutseq
                res.count('partial_assemblies')
        if desc['seed'] % 3 == 0:
            # one sample holds, as a second contig, a copy of the surroundings of an indel with one substitution just before it (a
            # diverged duplicate): the split k-mer that starts the indel's branch then carries an ambiguity code in that sample
            u_ = rng.randrange(ns)
            j_ = rng.randrange(len(indels))
            a_ = indels[j_][0]
            anchor = anc[a_ - 2 * k:a_ - k]
            pos_ = ss[u_].find(anchor)
            if pos_ >= 0:
                region = list(ss[u_][max(0, pos_ - k):pos_ + 5 * k])
                # the middle base of the last split k-mer before the indel, or of the first one that reaches into it
                off_ = (pos_ - max(0, pos_ - k)) + 2 * k - (k - 1) // 2 - rng.choice([0, 1, 1, 2])
                if 0 <= off_ < len(region):
                    region[off_] = rng.choice([b_ for b_ in 'ACGT' if b_ != region[off_]])
                    dupcontig = (u_, ''.join(region))
                    res.count('samples_with_a_diverged_duplicate_near_an_indel')
    pool = ['zeta', 'alpha', 'Mu', 'beta9', 'x10', 'x2', 'omega', 'delta', 'B_7', 'kappa', 'a1', 'Z', 'q-3', 'nu.2']
    r3 = random.Random(desc['seed'] ^ 0xabc)
    snames = r3.sample(pool, ns) if desc['seed'] % 2 else ['s%d' % i for i in range(ns)]
    files = [G.write_fa(ctx.path('%s.fa' % snames[i]), [s if rng.random() < 0.5 else M.rc(s)] + ([dupcontig[1]] if dupcontig and dupcontig[0] == i else [])) for i, s in enumerate(ss)]
    p = G.ska_build(ctx, ctx.path('o'), files, k, True)
    if p.returncode != 0:
        raise Inconclusive('build failed: ' + p.stderr[-200:])
    env = {'SKA_VERIF_JITTER': '%d:300' % desc['jitter']} if desc.get('jitter') is not None else None
    # output prefix with or without dots in its last component; -m (allowed share of missing samples) at its default, at 0 (the
    # planted data have no missing sample, so the bound is met with equality) and above
    OUT = 'out' if desc['seed'] % 3 else 'res.k%d.v1' % k
    marg = {0: ['-m', '0'], 1: ['-m', '0.5'], 2: ['-m', '0.1']}.get(desc['seed'] % 7, [])
    if desc['seed'] % 5 == 1:
        marg = marg + ['-v']                     # the global verbose flag changes what is logged, not what is written
        res.count('runs_with_-v')
    if OUT != 'out':
        res.count('dotted_output_prefix')
    if marg == ['-m', '0']:
        res.count('runs_with_-m_0')
    if desc['seed'] % 4 == 0:
        # an earlier, larger result under the same output prefix (a real earlier run where one succeeds, and in any case
        # files longer than anything this run writes)
        r2 = random.Random(desc['seed'] ^ 0x52)
        g2 = gen(r2, k, 8, False)
        if g2 is not None:
            f2 = [G.write_fa(ctx.path('prev%d.fa' % i), [s_]) for i, s_ in enumerate(g2[1])]
            if G.ska_build(ctx, ctx.path('prev'), f2, k, True).returncode == 0:
                ctx.sh(ctx.ska, 'lo', ctx.path('prev.skf'), ctx.path(OUT))
        for suf in ('_indels.vcf', '_snps.fas'):
            old_ = open(ctx.path(OUT + suf)).read() if os.path.exists(ctx.path(OUT + suf)) else ''
            ctx.write(OUT + suf, old_ + ''.join('chr_old\t%d\t.\tACGT\tA\t.\t.\t.\tGT\t0\t1\t0\t1\t0\t1\t0\t1\n' % i for i in range(60)))
        res.count('runs_over_existing_output')
    p = ctx.sh(ctx.ska, 'lo', ctx.path('o.skf'), ctx.path(OUT), '--threads', desc['threads'], *marg, env=env)
    res.evals += 1
    res.see('k', k)
    if desc['threads'] > 1:
        res.count('threads>1')
    if len(indels) > 1:
        res.count('multi_indel_inputs')
        if any(indels[j][1] == 'ins' and indels[j][3] == indels[0][3] and carriers[j] == carriers[0] for j in range(1, len(indels))) and indels[0][1] == 'ins':
            res.count('inputs_with_the_same_insertion_at_two_loci')
    detail = {'k': k, 'ancestor': anc, 'samples': ss, 'indels': indels, 'carriers': carriers, 'threads': desc['threads'], 'jitter': desc.get('jitter')}
    if p.returncode != 0:
        res.violate('C18:failed', 'k=%d ns=%d: lo failed on an input with %d planted indels: %s' % (k, ns, len(indels), p.stderr.strip()[-200:]), detail)
        return res
    recs = []
    try:
        for l in open(ctx.path(OUT + '_indels.vcf')):
            if l.startswith('#CHROM'):
                if l.rstrip('\n').split('\t')[9:] != snames:
                    res.violate('C18:header', 'sample columns of the indel VCF are %s, the samples are %s (in this order)'
                                % (l.rstrip('\n').split('\t')[9:], snames), detail)
                    return res
                res.count('headers_checked')
            if l.startswith('#'):
                continue
            f = l.rstrip('\n').split('\t')
            info = dict(x.split('=', 1) for x in f[6].split(';'))
            recs.append((f[3], f[4], info['before'], info['after'], f[9:]))
    except (OSError, ValueError, KeyError, IndexError) as e:
        res.violate('C18:unparsable', 'indel VCF unreadable: %s' % e, detail)
        return res
    pop = {True: 'flank', 'palin': 'palin'}.get(desc.get('flank'), 'plain')
    res.count('planted', len(indels))
    res.count('planted:' + pop, len(indels))
    stratum = 'threads=%d,indels=%d' % (desc['threads'], len(indels))
    res.count('planted:' + stratum, len(indels))
    same_ins = len(indels) > 1 and indels[0][1] == 'ins' and all(x[1] == 'ins' and x[3] == indels[0][3] for x in indels) and all(c == carriers[0] for c in carriers)
    if same_ins:
        res.count('planted:same-insertion-at-several-loci', len(indels))
    res.count('insertions', sum(1 for x in indels if x[1] == 'ins'))
    res.count('deletions', sum(1 for x in indels if x[1] == 'del'))
    matched = set()
    for (ref, alt, before, after, gts) in recs:
        res.count('records_checked')
        rs = before + ref.replace('-', '') + after
        as_ = before + alt.replace('-', '') + after
        bad = []
        if len(gts) != ns:
            bad.append('%d genotypes for %d samples' % (len(gts), ns))
            gts = (gts + ['?'] * ns)[:ns]
        for i, gt in enumerate(gts):
            hasr, hasa = has(ss[i], rs), has(ss[i], as_)
            if gt == '0' and not (hasr and not hasa):
                bad.append('sample %d genotyped 0 but REF allele present=%s ALT allele present=%s' % (i, hasr, hasa))
            elif gt == '1' and not (hasa and not hasr):
                bad.append('sample %d genotyped 1 but REF allele present=%s ALT allele present=%s' % (i, hasr, hasa))
            elif gt == '.' and (hasr or hasa):
                bad.append('sample %d genotyped missing although it carries an allele' % i)
            elif gt == '0/1' and not (hasr and hasa):
                bad.append('sample %d genotyped 0/1 without carrying both alleles' % i)
            elif gt not in ('0', '1', '.', '0/1'):
                bad.append('genotype %r' % gt)
        if bad:
            res.violate('C18:unsound', 'k=%d ns=%d record REF=%s ALT=%s before=%s after=%s GT=%s: %s'
                        % (k, ns, ref, alt, before, after, ','.join(gts), '; '.join(bad[:3])), detail)
            continue
        # match to a planted indel by location, length and carrier set
        m = None
        for j, (s, kind, ln, ins) in enumerate(indels):
            in0_r, in0_a = has(anc, rs), has(anc, as_)
            inj_r, inj_a = has(singles[j], rs), has(singles[j], as_)
            located = (in0_r and inj_a and not in0_a) or (in0_a and inj_r and not in0_r)
            if not located:
                continue
            carrier_allele_is_alt = in0_r            # ancestor has REF -> carriers of the indel have ALT
            cov = {i for i in range(ns) if has(ss[i], rs) or has(ss[i], as_)}         # samples that reach this site at all
            car = {i for i, c in enumerate(carriers[j]) if c} & cov
            g_car = {i for i, x in enumerate(gts) if x == ('1' if carrier_allele_is_alt else '0')}
            g_non = {i for i, x in enumerate(gts) if x == ('0' if carrier_allele_is_alt else '1')}
            if g_car == car and g_non == cov - car:
                m = j
                if abs(len(rs) - len(as_)) != ln:
                    # real alleles at the planted site with the planted carriers, written with longer flank-overlapping
                    # allele strings (the inserted sequence re-creates a nearby (k-1)-mer): counted, not a violation
                    res.count('records_with_nonminimal_allele_strings')
        if m is None:
            res.violate('C18:unmatched', 'k=%d ns=%d record REF=%s ALT=%s before=%s after=%s GT=%s matches no planted indel %s'
                        % (k, ns, ref, alt, before, after, ','.join(gts), indels), detail)
        elif m in matched:
            res.violate('C18:duplicate', 'k=%d ns=%d planted indel %s is reported twice' % (k, ns, indels[m],), detail)
        else:
            matched.add(m)
    res.count('reported_planted', len(matched))
    res.count('reported_planted:' + pop, len(matched))
    res.count('reported_planted:' + stratum, len(matched))
    if same_ins:
        res.count('reported_planted:same-insertion-at-several-loci', len(matched))
    res.nontrivial.append(fingerprint([k, ss]))
    if res.sample is None:
        res.sample = {'k': k, 'samples': ns, 'ancestor_length': len(anc), 'indels': indels, 'carriers': carriers, 'records': [r[:4] for r in recs]}
    return res


def finalize(tier, counters, sets):
    planted = counters.get('planted', 0)
    found = counters.get('reported_planted', 0)
    if planted < 500:
        return [], ['only %d indels planted, recall not judged' % planted]
    out = []
    if found * 10 < planted * 9:
        out.append({'signature': 'C18:recall', 'what': 'only %d of %d planted indels reported (%.1f%% < 90%%)' % (found, planted, 100.0 * found / planted),
                    'detail': None})
    # the same statistic on each population of inputs (random indels; indels that repeat their flank), when large enough
    strata = sorted(x[len('planted:'):] for x in counters if x.startswith('planted:threads='))
    for pop in ['plain', 'flank', 'palin', 'same-insertion-at-several-loci'] + strata:
        pl, fo = counters.get('planted:' + pop, 0), counters.get('reported_planted:' + pop, 0)
        if pl >= (500 if pop in ('plain', 'flank', 'palin') else 300) and fo * 10 < pl * 9:
            out.append({'signature': 'C18:recall:' + pop, 'what': 'only %d of %d planted %s indels reported (%.1f%% < 90%%)' % (fo, pl, pop, 100.0 * fo / pl),
                        'detail': None})
    return out, []


def coverage_extra(tier, counters, sets):
    planted = counters.get('planted', 0)
    return {'recall': (counters.get('reported_planted', 0) / planted) if planted else None}
