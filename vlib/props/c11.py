"""C11 - Thread count and run-to-run nondeterminism never change a result."""
import hashlib
import os
import shutil
import tempfile
import random
import re

from .. import gen as G
from .. import model as M
from ..run import Result, fingerprint, Inconclusive
from . import c04, c14, c17

ID = 'C11'
LEVEL = 'exploration'
BUDGET = {'quick': 300, 'thorough': 3000}
CHUNK = 1
RULE = ('Cases: one input set per case and command; the command is run once with --threads 1 and then 5 (quick) / 9 (thorough) more '
        'times with thread counts from {1,2,3,4,6,8,16,32}, each process drawing fresh hash seeds, some with seeded jitter at the '
        'hook points (start of parallel work items, before locks), some pinned to one CPU with taskset.  Every run must succeed '
        'if the single-threaded one did and give: byte-identical output for map (aln, vcf), distance and lo with a reference (snps '
        'fasta, snps vcf, pseudo-genomes, indel vcf); an identical table for build (from sequence files, and from 2..40 paired read samples with --min-count 2..3, and with --min-count auto); an identical column multiset for align; a '
        'column multiset up to order and whole-column complement for reference-free lo (+ identical indel record set).  Where an '
        'absolute oracle exists (model table for build, C04 model for map, C14 model for distance, planted truth for lo) the '
        'single-threaded result is also judged, so "all runs equally wrong" is not a pass.  Sample counts '
        '{1,2,9,10,19,20,21,39,40,45,70,79,80,150,165} for build (both sides of the 10-samples-per-thread rule, up to four levels of the recursive split) and a subset for align/map, sequence-file and .skf '
        'inputs for align and map, lo on isolated-variant and on clustered-variant/repeat/indel inputs.  The hook log gives the '
        '(site, item, thread) sequence of every run; evidence reports distinct schedules per command.  A ThreadSanitizer build '
        'runs the parallel commands as well (quick: build, align, map, distance and lo with a reference on one input set each; thorough: every command on three).  Non-trivial: a command run with > 1 thread and > 1 parallel work '
        'item; distinct = distinct (command, inputs).')
ASSUMPTIONS = ['schedules are perturbed (thread counts, jitter, pinning, sanitizer slow-down), not enumerated',
               'the permitted freedom per command is the one stated in the property']
CMDS = ['build', 'build-reads', 'build-auto', 'align-fasta', 'align-skf', 'map-fasta', 'map-skf', 'distance', 'lo-ref', 'lo-free', 'lo-ref-clustered', 'lo-free-clustered']
REQUIRED = {t: ['cmd:' + c for c in CMDS] + ['runs_compared', 'jitter_runs', 'pinned_runs', 'threads_above_cores',
                                            'parallel_build_split_used', 'tsan_runs', 'builds_with_a_file_given_twice'] for t in ('quick', 'thorough')}
SAMPLE_COUNTS = [1, 2, 9, 10, 19, 20, 21, 39, 40, 45, 70, 79, 80, 150, 165]     # 70/150: third/fourth level of the recursive split
THREADS = [1, 2, 3, 4, 6, 8, 16, 32]


def builds(tier):
    return ['rel', 'tsan']


def plan(tier, seed, rng, scale):
    descs = []
    for cmd in CMDS:
        reps = {'build': 15, 'build-reads': 3, 'build-auto': 2, 'align-fasta': 4, 'align-skf': 3, 'map-fasta': 6, 'map-skf': 4, 'distance': 5}.get(cmd, 6)
        reps = int(reps * (4 if tier == 'quick' else 40) * scale) or 1
        for i in range(reps):
            d = {'cmd': cmd, 'seed': rng.getrandbits(32), 'nruns': 5 if tier == 'quick' else 9}
            if cmd == 'build-reads':
                d['ns'] = [12, 20, 10, 24, 2, 40][i % 6]
            elif cmd in ('build', 'align-fasta', 'align-skf', 'map-fasta', 'map-skf'):
                d['ns'] = SAMPLE_COUNTS[i % len(SAMPLE_COUNTS)] if cmd == 'build' else [10, 20, 40, 2, 21, 9, 39, 19, 45, 70, 80][i % 11]
                if cmd.startswith('align') or cmd.startswith('map'):
                    d['ns'] = max(2, d['ns'])
            descs.append(d)
    if True:
        for cmd in CMDS:
            if tier == 'quick' and cmd in ('align-skf', 'lo-free', 'lo-free-clustered', 'map-skf'):
                continue
            for i in range(3 if tier == 'thorough' else 1):
                descs.append({'cmd': cmd, 'seed': rng.getrandbits(32), 'nruns': 3, 'tsan': True,
                              'ns': [20, 40, 21][i] if not cmd.startswith('lo') and cmd != 'distance' else None})
    return descs


def gen_population(rng, ns, k, glen=None):
    """ns related genomes: shared ancestor with a few substitutions each, some with an extra contig."""
    glen = glen or (rng.randint(6 * k, 14 * k) if ns < 60 else rng.randint(3 * k, 6 * k))
    anc = G.rseq(rng, glen)
    samples = []
    for i in range(ns):
        s = list(anc)
        for _ in range(rng.randint(0, 4)):
            s[rng.randrange(glen)] = rng.choice('ACGT')
        recs = [''.join(s)]
        if rng.random() < 0.3:
            recs.append(G.rseq(rng, rng.randint(k, 3 * k)))
        samples.append(recs)
    return anc, samples


def schedule_of(logfile):
    """Signature of the (site, item, thread) sequence recorded by the hook points; also number of work items."""
    if not os.path.exists(logfile):
        return None, 0, 0, False
    ev = []
    for l in open(logfile):
        f = l.rstrip('\n').split('\t')
        if f[0] == 'P':
            ev.append((int(f[4]), f[1], f[2], f[3]))
    ev.sort()
    sig = hashlib.sha1(repr([(a, b, c) for _s, a, b, c in ev]).encode()).hexdigest()[:12]
    nthreads = len({c for _s, _a, _b, c in ev})
    return sig, len(ev), nthreads, any(a == 'parallel_merge' for _s, a, _b, _c in ev)


def run_variants(rng, nruns, tsan=False):
    """(threads, jitter seed or None, pinned) for the runs after the single-threaded baseline."""
    out = []
    for i in range(nruns):
        t = rng.choice(THREADS[1:]) if i else rng.choice([2, 4])
        if i == 1:
            t = rng.choice([16, 32])
        if i == 2:
            t = 1            # a second single-threaded process: fresh hash seeds only
        jitter = rng.getrandbits(16) if (i % 2 == 1 and not tsan) else None
        pinned = (i == 3) and not tsan
        out.append((t, jitter, pinned))
    return out


def run_case(desc, ctx):
    res = Result()
    cmd = desc['cmd']
    rng = random.Random(desc['seed'])
    tsan = desc.get('tsan', False)
    b = ctx.bins['tsan'] if tsan else ctx.ska
    res.count('cmd:' + cmd)
    k = rng.choice([9, 15, 17, 21, 31, 33]) if not cmd.startswith('lo') else rng.choice([15, 17, 21, 31])
    if cmd in ('align-fasta', 'map-fasta'):
        k = 17
    detail = {'cmd': cmd, 'k': k, 'seed': desc['seed']}
    truth = None
    outputs = []          # files (relative to a run directory) that make up the result

    # ------------------------------------------------------------------ inputs
    if cmd == 'build-auto':
        # --min-count auto fits its coverage model before the build starts: that step must not get in the way of --threads
        from . import c20
        k = rng.choice([21, 31, 33])
        rd, _params = c20.sim_reads(rng)
        txt = ''.join('@r%d\n%s\n+\n%s\n' % (x, t_, 'I' * len(t_)) for x, t_ in enumerate(rd[0] + rd[1]))
        for nm in ('a0', 'a1', 'b0', 'b1'):
            ctx.write(nm + '.fastq', txt)
        ctx.write('auto.list', 'A\t%s\t%s\nB\t%s\t%s\n' % tuple(ctx.path(nm + '.fastq') for nm in ('a0', 'a1', 'b0', 'b1')))
        detail['k'] = k
    elif cmd == 'build-reads':
        # paired read files per sample, counted with --min-count 2..3: every sample's filter state is its own
        ns = desc.get('ns') or 12
        anc, samples = gen_population(rng, ns, k, glen=rng.randint(5 * k, 9 * k))
        minc = rng.choice([2, 2, 3])
        lines = []
        for i, recs in enumerate(samples):
            rd = [[], []]
            for g_ in recs:
                for _c in range(minc + 1):
                    a_ = 0
                    while a_ < len(g_):
                        L_ = rng.randint(2 * k, 3 * k)
                        t_ = g_[a_:a_ + L_]
                        if len(t_) >= k:
                            rd[rng.randrange(2)].append(M.rc(t_) if rng.random() < 0.5 else t_)
                        a_ += rng.randint(k, L_)
            # stray reads seen once here and often in the neighbouring samples
            other = samples[(i + 1) % ns][0]
            rd[0].append(other[:3 * k])
            rd[1].append(G.rseq(rng, 2 * k))
            for j in (0, 1):
                ctx.write('q%d_%d.fastq' % (i, j), ''.join('@r%d\n%s\n+\n%s\n' % (x, t_, 'I' * len(t_)) for x, t_ in enumerate(rd[j])))
            lines.append('s%d\t%s\t%s\n' % (i, ctx.path('q%d_0.fastq' % i), ctx.path('q%d_1.fastq' % i)))
        ctx.write('reads.list', ''.join(lines))
        detail['ns'] = ns
        detail['min_count'] = minc
    elif cmd in ('build', 'align-fasta', 'align-skf', 'map-fasta', 'map-skf', 'distance'):
        ns = desc.get('ns') or rng.randint(2, 45)
        anc, samples = gen_population(rng, ns, k)
        files = [G.write_fa(ctx.path('s%d.fa' % i), recs) for i, recs in enumerate(samples)]
        exp_names = ['s%d' % i for i in range(ns)]
        if cmd == 'build' and ns >= 20 and desc['seed'] % 3 == 0:
            # the same file given twice, far apart in the argument list (two samples of one name, on either side of a split)
            i_, j_ = rng.randrange(0, ns // 3), rng.randrange(2 * ns // 3, ns)
            files[j_], samples[j_], exp_names[j_] = files[i_], samples[i_], exp_names[i_]
            res.count('builds_with_a_file_given_twice')
        detail['ns'] = ns
        ctx.write('ref.fa', '>chr1\n%s\n>chr2\n%s\n' % (anc[:len(anc) // 2], anc[len(anc) // 2:]))
        if cmd in ('align-skf', 'map-skf', 'distance'):
            p = G.ska_build(ctx, ctx.path('in'), files, k, True)
            if p.returncode != 0:
                raise Inconclusive('input build failed')
    else:
        clustered = cmd.endswith('clustered')
        if clustered:
            anc, ss = c17.gen_clustered(rng, k)
        else:
            g = c17.gen_snps(rng, k, rng.randint(2, 8), rng.randint(3, 10))
            if g is None:
                res.count('generator_gave_up')
                return res
            anc, ss, truth = g
        files = [G.write_fa(ctx.path('s%d.fa' % i), [s if rng.random() < 0.5 else M.rc(s)]) for i, s in enumerate(ss)]
        p = G.ska_build(ctx, ctx.path('in'), files, k, True)
        if p.returncode != 0:
            raise Inconclusive('input build failed')
        ctx.write('ref.fa', '>R\n%s\n' % anc)
        detail['samples'] = ss
        detail['ancestor'] = anc

    def invoke(threads, jitter, pinned, tag):
        d = ctx.path('run_' + tag)
        os.makedirs(d, exist_ok=True)
        log = os.path.join(d, 'events.log')
        env = {'SKA_VERIF_LOG': log}
        if jitter is not None:
            env['SKA_VERIF_JITTER'] = '%d:400' % jitter
        if tsan:
            # TSAN_OPTIONS is split at commas, spaces and colons: the log goes to a directory whose name has none of them
            tlog = tempfile.mkdtemp(prefix='skatsan', dir='/dev/shm')
            env['TSAN_OPTIONS'] = 'halt_on_error=0 exitcode=0 log_path=%s' % os.path.join(tlog, 'tsan')
        pre = ['taskset', '-c', '0'] if pinned else []
        th = ['--threads', threads]
        if cmd == 'build':
            args = ['build', '-k', k, '-o', os.path.join(d, 'o'), *files, *th]
        elif cmd == 'build-reads':
            args = ['build', '-k', k, '-o', os.path.join(d, 'o'), '-f', ctx.path('reads.list'), '--min-count', minc, *th]
        elif cmd == 'build-auto':
            args = ['build', '-k', k, '-o', os.path.join(d, 'o'), '-f', ctx.path('auto.list'), '--min-count', 'auto', *th]
        elif cmd == 'align-fasta':
            args = ['align', *files, '-o', os.path.join(d, 'aln.fa'), '--min-freq', '0.5', *th]
        elif cmd == 'align-skf':
            args = ['align', ctx.path('in.skf'), '-o', os.path.join(d, 'aln.fa'), '--min-freq', '0.5', *th]
        elif cmd == 'map-fasta':
            args = ['map', ctx.path('ref.fa'), *files, '-o', os.path.join(d, 'map.out'), '-f', fmt, *th]
        elif cmd == 'map-skf':
            args = ['map', ctx.path('ref.fa'), ctx.path('in.skf'), '-o', os.path.join(d, 'map.out'), '-f', fmt, '--repeat-mask', *th]
        elif cmd == 'distance':
            args = ['distance', ctx.path('in.skf'), '-o', os.path.join(d, 'dist.tsv'), *th]
        else:
            args = ['lo', ctx.path('in.skf'), os.path.join(d, 'out'), '-m', '0.3', *th] + (['-r', ctx.path('ref.fa')] if '-ref' in cmd else [])
        p = ctx.sh(*pre, b, *args, env=env, timeout=600)
        sig, nitems, nthr, split = schedule_of(log)
        result = {'rc': p.returncode, 'stderr': p.stderr[-300:], 'schedule': sig, 'items': nitems, 'threads_seen': nthr, 'split': split}
        if tsan:
            reports = 0
            for fn in os.listdir(tlog):
                if fn.startswith('tsan'):
                    txt = open(os.path.join(tlog, fn), errors='replace').read()
                    for block in txt.split('WARNING: ThreadSanitizer: data race')[1:]:
                        reports += 1
                        frames = re.findall(r'#\d+ (\S+)', block)[:6]
                        result.setdefault('tsan_reports', []).append(frames)
            result['tsan'] = reports
            shutil.rmtree(tlog, ignore_errors=True)
        # comparable form of the result
        if p.returncode == 0:
            if cmd in ('build', 'build-reads', 'build-auto'):
                hdr, T = G.nk(ctx, os.path.join(d, 'o.skf'))
                result['val'] = (hdr.get('names'), T, hdr.get('k'), hdr.get('rc'))
            elif cmd.startswith('align'):
                n, s = M.parse_fasta(open(os.path.join(d, 'aln.fa')).read())
                result['val'] = (n, sorted(M.columns(s)))
            elif cmd.startswith('map'):
                result['val'] = open(os.path.join(d, 'map.out'), 'rb').read()
            elif cmd == 'distance':
                result['val'] = open(os.path.join(d, 'dist.tsv'), 'rb').read()
            else:
                vals = []
                sufs = ['_snps.fas', '_indels.vcf'] + (['_snps.vcf', '_pseudo_genomes.fas'] if '-ref' in cmd else [])
                for suf in sufs:
                    try:
                        raw = open(os.path.join(d, 'out' + suf), 'rb').read()
                    except OSError:
                        raw = None
                    if '-free' in cmd and raw is not None:
                        if suf == '_snps.fas':
                            n, s = M.parse_fasta(raw.decode())
                            raw = (n, sorted(M.canon_col(c) for c in M.columns(s)))
                        else:
                            raw = indel_set(raw.decode())
                    vals.append(raw)
                result['val'] = vals
        return result

    fmt = rng.choice(['aln', 'vcf'])
    base = invoke(1, None, False, 'base')
    res.evals += 1
    if base['rc'] != 0:
        if (cmd.startswith('lo') and cmd.endswith('clustered')) or cmd == 'build-auto':
            res.count('baseline_no_result')       # e.g. no variant found: nothing to compare
            return res
        res.violate('C11:%s:baseline-failed' % cmd, '%s fails single-threaded: %s' % (cmd, base['stderr']), detail)
        return res
    # ---- absolute oracles on the single-threaded result
    if cmd == 'build':
        names, T, _k, _rc = base['val']
        if T != M.table_of(samples, k, True) or names != exp_names:
            res.violate('C11:build:absolute', 'single-threaded build differs from the model table', detail)
            return res
    elif cmd == 'distance':
        T = M.table_of(samples, k, True)
        if not any(M.is_ambig(x) for r in T.values() for x in r):
            exp, _ = c14.exp_dist(T, len(samples), ['s%d' % i for i in range(len(samples))], '0')
            if c14.compare(c14.parse_dist(base['val'].decode()), exp):
                res.violate('C11:distance:absolute', 'single-threaded distances differ from the model', detail)
                return res
            res.count('absolute_oracle_applied')
    elif cmd.startswith('map') and fmt == 'aln':
        T = M.table_of(samples, k, True)
        ref = [anc[:len(anc) // 2], anc[len(anc) // 2:]]
        exp, _m, _x = c04.expected_map(ref, T, len(samples), k, True, False, cmd == 'map-skf')
        if M.parse_fasta(base['val'].decode())[1] != exp:
            res.violate('C11:%s:absolute' % cmd, 'single-threaded map differs from the C04 model', detail)
            return res
        res.count('absolute_oracle_applied')
    elif cmd == 'lo-free' and truth is not None:
        got = base['val'][0][1]
        if got != sorted(M.canon_col(c) for c in truth.values()):
            res.violate('C11:lo-free:absolute', 'single-threaded lo differs from the planted truth', detail)
            return res
        res.count('absolute_oracle_applied')
    schedules = {base['schedule']}
    nontrivial = False
    tsan_total = base.get('tsan', 0)
    for ri, (threads, jitter, pinned) in enumerate(run_variants(rng, desc['nruns'], tsan)):
        r = invoke(threads, jitter, pinned, 'r%d' % ri)
        res.evals += 1
        res.count('runs_compared')
        res.see('threads', threads)
        if jitter is not None:
            res.count('jitter_runs')
        if pinned:
            res.count('pinned_runs')
        if threads > 16:
            res.count('threads_above_cores')
        if r['schedule']:
            schedules.add(r['schedule'])
        if cmd in ('build', 'build-reads') and r.get('split'):
            res.count('parallel_build_split_used')
        tsan_total += r.get('tsan', 0)
        what = '%s --threads %d%s%s' % (cmd, threads, ' jitter=%d' % jitter if jitter is not None else '', ' pinned' if pinned else '')
        if r['rc'] != 0:
            res.violate('C11:%s:fails-with-threads' % cmd, '%s fails (exit %d) although --threads 1 succeeds: %s' % (what, r['rc'], r['stderr'].strip()[-200:]),
                        dict(detail, threads=threads, jitter=jitter, pinned=pinned))
            continue
        if r['val'] != base['val']:
            res.violate('C11:%s:differs' % cmd, '%s gives a result different from the single-threaded run%s'
                        % (what, describe_diff(base['val'], r['val'])), dict(detail, threads=threads, jitter=jitter, pinned=pinned))
            continue
        if threads > 1 and r['items'] > 1:
            nontrivial = True
    res.count('distinct_schedules:' + cmd, len(schedules - {None}))
    res.see('schedules:' + cmd, '%s/%s' % (desc['seed'], len(schedules)))
    if tsan:
        res.count('tsan_runs', desc['nruns'] + 1)
        if tsan_total:
            res.violate('C11:%s:tsan' % cmd, 'ThreadSanitizer reports %d data race(s) in %s' % (tsan_total, cmd), detail)
    if nontrivial:
        res.nontrivial.append(fingerprint([cmd, desc['seed']]))
    if res.sample is None and nontrivial:
        res.sample = {'cmd': cmd, 'k': k, 'samples': detail.get('ns', len(detail.get('samples', []))), 'runs': desc['nruns'] + 1,
                      'distinct_schedules': len(schedules - {None}), 'work_items_single_thread': base['items']}
    return res


def indel_set(txt):
    return sorted(l for l in txt.split('\n') if l and not l.startswith('#'))


def describe_diff(a, b):
    try:
        if isinstance(a, bytes):
            la, lb = a.split(b'\n'), b.split(b'\n')
            for i, (x, y) in enumerate(zip(la, lb)):
                if x != y:
                    return ': first differing line %d: %r vs %r' % (i + 1, x[:120], y[:120])
            return ': %d vs %d lines' % (len(la), len(lb))
        if isinstance(a, list):
            for i, (x, y) in enumerate(zip(a, b)):
                if x != y:
                    return ': output file %d differs%s' % (i, describe_diff(x, y) if isinstance(x, bytes) and isinstance(y, bytes) else ' (%s vs %s)' % (str(x)[:150], str(y)[:150]))
    except Exception:
        pass
    return ''


def finalize(tier, counters, sets):
    inconcl = []
    for cmd in CMDS:
        if counters.get('cmd:' + cmd) and counters.get('distinct_schedules:' + cmd, 0) <= counters.get('cmd:' + cmd, 0) and cmd not in ('align-skf', 'build-auto'):
            # every input set showed a single schedule: the schedule quantifier was not exercised for this command
            inconcl.append('only one schedule observed per input for ' + cmd)
    return [], inconcl
