"""C16 - Bit packing, reverse complement and rolling updates are exact for all k."""
import random
import subprocess

from .. import build
from .. import gen as G
from .. import model as M
from ..run import Result, fingerprint, Inconclusive

ID = 'C16'
LEVEL = 'exploration'
BUDGET = {'quick': 240, 'thorough': 2400}
CHUNK = 1
RULE = ('(a) Complete enumeration of every full k-mer for k in {5,7,9,11}, in u64 and u128: packing '
        'by the sequence reader, decode, encode_kmer/skalo_decode_kmer, packed reverse complement of the arms (and of the full '
        'k-mer) against a string-level reference, involution, canonical choice and self-complement flag, strand-symmetric hash. '
        '(b) For all 30 odd k and both widths (u64 only for k<=31): structured k-mers (all-A..all-G, one non-background base '
        'at each position for every background - this walks every bit pair including the top pair at k=63 - alternating, '
        'self-complementary arms) and random k-mers.  (c) Sliding: every window produced by get_next_kmer over random sequences '
        'with N/n, lower case and quality strings (reads mode, three quality rules) equals the one computed from scratch on '
        'that window alone (k-mer, middle, orientation flag, middle position, hash), and both equal the string model and the '
        'Python ntHash.  Slices of (a)-(c) are repeated under Miri and on an overflow-checked harness.  (d) A use site of the command line on both sides of the width boundary: the k-mer multiplicities behind `ska build --min-count auto -k K` (printed table, cutoff, the dictionary it then builds) against `ska cov -k K` on the same reads, K in {21,29,31,33,35,41,51,63}.  Non-trivial: a checked '
        'k-mer / window; distinct counted per (k, width, k-mer) for enumerations and per (k, width, sequence) for sliding.')
ASSUMPTIONS = ['the string-level reference in harness/src/main.rs (module reference) and vlib/model.py state the specification',
               'an overflow panic on the checked build is a diagnostic; the functional comparison on the release build decides']
REQUIRED = {t: ['enum_kmers_checked', 'structured_kmers_checked', 'random_kmers_checked', 'windows_checked', 'hashes_checked',
                'miri_kmers_checked', 'chk_kmers_checked', 'windows_after_N_restart', 'quality_restarts',
                'cli_use_sites_128bit', 'cli_use_sites_64bit', 'windows_with_ambiguity_letters_slide_vs_scratch', 'map_first_windows_after_a_leading_N'] for t in ('quick', 'thorough')}


def builds(tier):
    return ['rel', 'harness', 'harness-chk']


def widths(k):
    return [64, 128] if k <= 31 else [128]


def plan(tier, seed, rng, scale):
    descs = []
    enum_k = [5, 7, 9, 11]
    for k in enum_k:
        for w in (64, 128):
            shards = {5: 1, 7: 1, 9: 4, 11: 32}[k]
            for s in range(shards):
                descs.append({'kind': 'enum', 'k': k, 'w': w, 'shards': shards, 'shard': s})
    nrand = int((10000 if tier == 'quick' else 100000) * scale)
    for k in G.ALL_K:
        for w in widths(k):
            descs.append({'kind': 'structured', 'k': k, 'w': w, 'seed': rng.getrandbits(31)})
            descs.append({'kind': 'random', 'k': k, 'w': w, 'n': nrand, 'seed': rng.getrandbits(31)})
            descs.append({'kind': 'chk', 'k': k, 'w': w, 'seed': rng.getrandbits(31)})
    nroll = int((240 if tier == 'quick' else 4000) * scale)
    for i in range(nroll):
        descs.append({'kind': 'roll', 'seed': rng.getrandbits(32), 'variant': 'harness-chk' if i % 5 == 0 else 'harness'})
    mk = [5, 31, 33, 63] if tier == 'quick' else [5, 7, 15, 29, 31, 33, 35, 47, 61, 63]
    for k in mk:
        for w in widths(k):
            descs.append({'kind': 'miri', 'k': k, 'w': w, 'seed': rng.getrandbits(31)})
    descs.append({'kind': 'miri-roll', 'seed': rng.getrandbits(32)})
    for i in range(int((16 if tier == 'quick' else 60) * max(scale, 0.25))):
        # the width chosen at a use site of the command line: k on both sides of the 64/128-bit boundary
        descs.append({'kind': 'cli-auto', 'k': [31, 33, 41, 63, 29, 35, 51, 21][i % 8], 'rc': i % 3 != 0, 'seed': rng.getrandbits(32)})
    for i in range(int((60 if tier == 'quick' else 600) * max(scale, 0.25))):
        descs.append({'kind': 'cli-map', 'k': [11, 21, 31, 33, 41, 63, 9, 15][i % 8], 'rc': i % 3 != 0, 'seed': rng.getrandbits(32)})
    return descs


def parse_bits(out):
    st = {}
    bad = []
    for l in out.split('\n'):
        if l.startswith('BITS'):
            for f in l.split('\t')[1:]:
                a, b = f.split('=')
                st[a] = b
        elif l.startswith('BAD'):
            bad.append(l[4:])
    return st, bad


def roll_cases(rng, n):
    """Lines for the harness `roll` command plus the parameters for the model."""
    cases = []
    for _ in range(n):
        k = rng.choice(G.ALL_K)
        w = rng.choice(widths(k))
        rc = rng.random() < 0.6
        reads = rng.random() < 0.6
        L = rng.randint(k, 4 * k)
        seq = G.noisy_seq(rng, L, pn=rng.choice([0, 0.02, 0.05]), lc=rng.choice([0, 0.2]))
        iupac = rng.random() < 0.1
        if iupac:
            # ambiguity letters in the sequence: what the packing makes of them is not stated anywhere, but sliding into a
            # window and building it from scratch must still agree (the string model is not consulted for these cases)
            t_ = list(seq)
            for _j in range(rng.randint(1, 4)):
                t_[rng.randrange(len(t_))] = rng.choice('RYKMSWBDHVrykm')
            seq = ''.join(t_)
        if reads:
            minq = rng.choice([0, 2, 10, 20, 30])
            qf = rng.choice(['none', 'middle', 'strict'])
            # qualities exactly at the threshold are the subject of C12 and are avoided here
            pool = [q for q in (minq - 1, minq + 1, rng.randint(0, 41), 40, 40, 40, 41) if q >= 0 and q != minq]
            qual = ''.join(chr(33 + rng.choice(pool)) for _ in range(L))
        else:
            minq, qf, qual = 0, 'none', None
        cases.append({'k': k, 'w': w, 'rc': rc, 'reads': reads, 'minq': minq, 'qf': qf, 'seq': seq, 'qual': qual, 'iupac': iupac})
    return cases


def model_windows(c):
    """Expected (middle position, arms, middle, flag, hash, palindrome, middle-quality-ok) per window."""
    k, rc = c['k'], c['rc']
    h = (k - 1) // 2
    out = []
    seq = c['seq'].upper()
    q = [ord(x) - 33 for x in c['qual']] if c['qual'] else None
    for i in range(len(seq) - k + 1):
        w = seq[i:i + k]
        if 'N' in w:
            continue
        if c['qf'] == 'strict' and q and min(q[i:i + k]) < c['minq']:
            continue
        sk, m, flip, pal = M.canon_split(w, rc)
        hsh = str(M.nthash(w, rc)) if c['reads'] else '-'
        mq = 1
        if q and c['qf'] in ('middle', 'strict') and q[i + h] < c['minq']:
            mq = 0
        out.append((i + h, sk, m, int(flip), hsh, int(pal), mq))
    return out


def judge_roll(res, cases, out, sig):
    got = {}
    ends = {}
    for l in out.split('\n'):
        f = l.split('\t')
        if f[0] == 'W':
            got.setdefault(int(f[1]), []).append((int(f[2]), f[3], f[4], int(f[5]), f[6], int(f[7]), int(f[8])))
        elif f[0] == 'E':
            ends[int(f[1])] = (int(f[2]), int(f[3]))
        elif f[0] in ('SCRATCHDIFF', 'HASHDIFF'):
            ci = int(f[1])
            res.violate(sig + ':rolling-vs-scratch', 'k=%d width=%d rc=%s: sliding differs from scratch at middle position %s: %s'
                        % (cases[ci]['k'], cases[ci]['w'], cases[ci]['rc'], f[2], l), cases[ci])
    for ci, c in enumerate(cases):
        if ci not in ends:
            res.violate(sig + ':crash', 'harness produced no result for case k=%d width=%d' % (c['k'], c['w']), c)
            continue
        g = got.get(ci, [])
        if c.get('iupac'):
            res.evals += 1
            res.count('windows_with_ambiguity_letters_slide_vs_scratch', len(g))
            continue
        exp = model_windows(c)
        res.evals += 1
        if g != exp:
            diff = [(a, b) for a, b in zip(g, exp) if a != b][:2]
            res.violate(sig + ':model', 'k=%d width=%d rc=%s reads=%s qf=%s: %d windows, model %d; first differences %s'
                        % (c['k'], c['w'], c['rc'], c['reads'], c['qf'], len(g), len(exp), diff), c)
            continue
        res.count('windows_checked', len(exp))
        res.see('k_width', '%d/%d' % (c['k'], c['w']))
        if c['reads']:
            res.count('hashes_checked', len(exp))
        seq = c['seq'].upper()
        if 'N' in seq and exp:
            res.count('windows_after_N_restart', sum(1 for a, b in zip(exp, exp[1:]) if b[0] - a[0] > 1))
        if c['qf'] == 'strict' and c['qual']:
            res.count('quality_restarts', sum(1 for a, b in zip(exp, exp[1:]) if b[0] - a[0] > 1))
        if exp:
            res.nontrivial.append(fingerprint([c['k'], c['w'], c['rc'], c['seq'], c['qual'], c['qf'], c['minq']]))


def roll_file(ctx, cases):
    lines = []
    for c in cases:
        lines.append('%d %d %d %d %d %s %s%s' % (c['k'], c['w'], c['rc'], c['reads'], c['minq'], c['qf'], c['seq'],
                                                 (' ' + c['qual']) if c['qual'] else ''))
    return ctx.write('roll.txt', '\n'.join(lines) + '\n')


def run_case(desc, ctx):
    res = Result()
    kind = desc['kind']
    H = ctx.bins['harness']
    if kind == 'cli-map':
        # middle positions at a use site: `ska map` against contigs whose first window does not start at base 0 (an N within the
        # first k bases), with a sample that differs from the reference exactly at the centre of that first window
        from . import c04
        k, rcmode = desc['k'], desc['rc']
        rng = random.Random(desc['seed'])
        h = (k - 1) // 2
        ref, smp = [], []
        for _c in range(rng.randint(1, 3)):
            pre = G.rseq(rng, rng.randint(0, k - 1))
            body = G.rseq(rng, rng.randint(k, 4 * k))
            ref.append(pre + 'N' * rng.randint(1, 2) + body)
            t_ = list(body)
            t_[h] = {'A': 'C', 'C': 'G', 'G': 'T', 'T': 'A'}[t_[h]]                     # the centre of the first window after the N
            smp.append(''.join(t_))
        ctx.write('ref.fa', ''.join('>c%d\n%s\n' % (i, c) for i, c in enumerate(ref)))
        G.write_fa(ctx.path('s0.fa'), smp)
        p = G.ska_build(ctx, ctx.path('o'), [ctx.path('s0.fa')], k, rcmode)
        m = ctx.sh(ctx.ska, 'map', ctx.path('ref.fa'), ctx.path('o.skf'))
        res.evals += 1
        if p.returncode != 0 or m.returncode != 0:
            raise Inconclusive('build/map failed: ' + (p.stderr + m.stderr)[-200:])
        _h, table = G.nk(ctx, ctx.path('o.skf'))
        exp, matched, _m = c04.expected_map(ref, table, 1, k, rcmode, False, False)
        _n, got = M.parse_fasta(m.stdout)
        if got != exp:
            pos = [i for i in range(min(len(got[0]), len(exp[0]))) if got[0][i] != exp[0][i]][:5] if got else []
            res.violate('C16:cli-map', 'k=%d rc=%s: mapping against contigs with an N among their first k bases: differing positions %s, got %r expected %r'
                        % (k, rcmode, pos, got[0][:60] if got else None, exp[0][:60]), {'ref': ref, 'sample': smp})
        else:
            res.count('map_first_windows_after_a_leading_N', len(ref))
            res.nontrivial.append(fingerprint(['cli-map', desc['seed']]))
        return res
    if kind == 'cli-auto':
        # sliding and packing as used by `ska build --min-count auto`: its k-mer multiplicities (printed table, cutoff) must be
        # those of `ska cov` at the same k, and the build must obey that count - for k <= 31 and k >= 33 alike
        from . import c12
        c12.run_auto(desc, ctx, res)
        if desc['k'] > 31:
            res.count('cli_use_sites_128bit', res.counters.get('auto_mincount_builds', 0))
        else:
            res.count('cli_use_sites_64bit', res.counters.get('auto_mincount_builds', 0))
        return res
    if kind in ('enum', 'structured', 'random', 'chk'):
        k, w = desc['k'], desc['w']
        binary = H
        if kind == 'enum':
            args = ['bits', k, w, 'enum', desc['shards'] if desc['shards'] > 1 else 0, desc['shard']]
        elif kind == 'structured':
            args = ['bits', k, w, 'structured', 0, desc['seed']]
        elif kind == 'random':
            args = ['bits', k, w, 'random', desc['n'], desc['seed']]
        else:
            binary = ctx.bins['harness-chk']
            args = ['bits', k, w, 'structured', 0, desc['seed']]
        p = ctx.sh(binary, *args, timeout=600)
        st, bad = parse_bits(p.stdout)
        if kind == 'chk':
            if p.returncode != 0:
                if 'overflow' in p.stderr:
                    res.count('chk_overflow_panics')
                    res.see('chk_overflow_site', p.stderr.split('panicked at ')[-1].split('\n')[0][:80])
                    return res
                raise Inconclusive('checked harness failed: ' + p.stderr[-200:])
            res.count('chk_kmers_checked', int(st.get('checked', 0)))
            if bad:
                res.count('chk_mismatches', len(bad))
            return res
        if p.returncode != 0 or 'checked' not in st:
            res.violate('C16:%s:crash:k%d:w%d' % (kind, k, w), 'harness bits k=%d width=%d %s crashed: %s' % (k, w, kind, p.stderr.strip()[-300:]), desc)
            return res
        n = int(st['checked'])
        res.evals += n
        res.count('%s_kmers_checked' % kind, n)
        res.count('palindromic_kmers', int(st['palindromes']))
        res.see('k_width', '%d/%d' % (k, w))
        if kind == 'enum':
            res.nontrivial_n += n          # shards are disjoint and enumerate distinct k-mers by construction
        if int(st['bad']):
            res.violate('C16:%s:k%d:w%d' % (kind, k, w), 'k=%d width=%d (%s): %s of %s k-mers wrong, e.g. %s' % (k, w, kind, st['bad'], st['checked'], bad[:3]),
                        {'desc': desc, 'bad': bad})
        if res.sample is None and kind == 'structured' and k == 63:
            res.sample = {'k': k, 'width': w, 'mode': kind, 'checked': n, 'command': ' '.join(str(a) for a in args)}
        return res
    if kind == 'roll':
        rng = random.Random(desc['seed'])
        cases = roll_cases(rng, 40)
        f = roll_file(ctx, cases)
        p = ctx.sh(ctx.bins[desc['variant']], 'roll', f, timeout=300)
        if desc['variant'] == 'harness-chk':
            if p.returncode != 0 and 'overflow' in p.stderr:
                res.count('chk_overflow_panics')
                res.see('chk_overflow_site', p.stderr.split('panicked at ')[-1].split('\n')[0][:80])
                return res
            res.count('chk_roll_runs')
        if p.returncode != 0:
            res.violate('C16:roll:crash', 'harness roll crashed: %s' % p.stderr.strip()[-300:], {'cases': cases})
            return res
        judge_roll(res, cases, p.stdout, 'C16:roll')
        if res.sample is None:
            c = cases[0]
            res.sample = {'k': c['k'], 'width': c['w'], 'rc': c['rc'], 'reads': c['reads'], 'seq': c['seq'], 'windows': None if c.get('iupac') else len(model_windows(c))}
        return res
    if kind in ('miri', 'miri-roll'):
        if kind == 'miri':
            args = ['bits', str(desc['k']), str(desc['w']), 'random', '40', str(desc['seed'])]
        else:
            rng = random.Random(desc['seed'])
            cases = [c for c in roll_cases(rng, 12)]
            for c in cases:
                c['seq'] = c['seq'][:c['k'] + 12]
                if c['qual']:
                    c['qual'] = c['qual'][:len(c['seq'])]
            args = ['roll', roll_file(ctx, cases)]
        cmd, env, cwd = build.miri_cmd(args)
        try:
            p = subprocess.run(cmd, cwd=cwd, env=env, capture_output=True, text=True, timeout=1500)
        except subprocess.TimeoutExpired:
            raise Inconclusive('miri timed out')
        if 'Undefined Behavior' in p.stderr:
            res.violate('C16:miri', 'Miri reports undefined behaviour: ' + p.stderr[-400:], p.stderr[-3000:])
            return res
        if p.returncode != 0:
            if 'overflow' in p.stderr:
                res.count('miri_overflow_panics')
                res.see('miri_overflow_site', p.stderr.split('panicked at ')[-1].split('\n')[0][:80])
                return res
            raise Inconclusive('miri run failed: ' + p.stderr[-300:])
        if kind == 'miri':
            st, bad = parse_bits(p.stdout)
            res.count('miri_kmers_checked', int(st.get('checked', 0)))
            res.evals += int(st.get('checked', 0))
            if int(st.get('bad', 1)):
                res.violate('C16:miri:k%d' % desc['k'], 'under Miri: %s' % bad[:3], desc)
        else:
            judge_roll(res, cases, p.stdout, 'C16:miri-roll')
            res.count('miri_windows_checked', res.counters.get('windows_checked', 0))
        return res
    raise ValueError(kind)


def coverage_extra(tier, counters, sets):
    n = counters.get('enum_kmers_checked', 0)
    return {'exhaustive': True,
            'exhaustive_scope': 'complete only for the enumeration part: every full k-mer for k in {5,7,9,11} in both widths; structured, '
                                'random and sliding parts are sampled',
            'distinct_kmers_checked': n}
