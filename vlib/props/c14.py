"""C14 - Distances are SNP counts over shared k-mers plus k-mer set mismatch."""
import random
import shutil
from fractions import Fraction

from .. import gen as G
from .. import model as M
from ..run import Result, fingerprint

ID = 'C14'
LEVEL = 'exploration'
BUDGET = {'quick': 150, 'thorough': 1800}
CHUNK = 2
RULE = ('Cases: unambiguous tables of 2..12 samples (a few per run of 13..48 samples and 700..5000 rows or 3..12 samples and 12000..20000 rows, and of 256..520 samples with rows present in exactly 255/256/257 of them; all bases; constant rows, which the program pre-filters and adds back; '
        'rows with gaps in every missingness pattern; duplicated samples; rows below a frequency threshold next to rows above '
        'it in >=3 samples) constructed through `ska build`, and planted-SNP genome sets.  `ska distance [--min-freq j/n or 0.3/0.45/0.6/0.85] '
        '[--allow-ambiguous] [--threads 1|2|4|8|16]` is compared with the model in exact rationals: SNPs = rows present in both and '
        'different, mismatch = rows in exactly one / rows in at least one, over rows present in >= ceil(f*n) samples; tolerance '
        'half a unit of the last printed digit.  Also: every unordered pair exactly once in input order (also when two samples carry the same name), identical samples at '
        '(0,0), proportion in [0,1], invariance under sample permutation and thread count, and the same figures for the same table held in a file with a history (extra samples built in and deleted again; two halves merged), written with -o over an existing longer file.  Non-trivial: some pair has SNPs > 0 '
        'and 0 < mismatch < 1; distinct = distinct (table, setting).')
ASSUMPTIONS = ['tables hold only A/C/G/T and gaps (the statement is about files without ambiguity codes)',
               'min-freq passed as a short decimal; exact rational used by the oracle']
REQUIRED = {t: ['minfreq_drops_rows_with_3plus_samples', 'constant_rows', 'identical_sample_pairs', 'permutation_checked',
                'threads:1', 'threads:2', 'threads:4', 'threads:8', 'threads:16', 'more_threads_than_samples_on_tables_over_32768_rows', 'allow_ambiguous', 'pairs_checked',
                'history:delete', 'history:merge', 'history_allow_ambiguous_minfreq_drops', 'large_tables', 'tables_over_8192_rows', 'tables_of_256+_samples', 'files_with_a_repeated_sample_name', 'files_under_a_bare_name_next_to_a_sibling', 'tables_of_513+_samples', 'library_second_calls_compared'] for t in ('quick', 'thorough')}


def builds(tier):
    return ['rel', 'chk', 'harness']


def plan(tier, seed, rng, scale):
    descs = []
    for ns in range(2, 13):
        descs.append({'ns': ns, 'k': rng.choice([5, 9, 15, 31, 33, 63]), 'seed': rng.getrandbits(32), 'kind': 'table'})
    n = int((2000 if tier == 'quick' else 30000) * scale)
    for i in range(n):
        descs.append({'ns': rng.randint(2, 12), 'k': rng.choice([5, 9, 15, 31, 33, 63]) if rng.random() < 0.7 else rng.choice(G.ALL_K),
                      'seed': rng.getrandbits(32), 'kind': 'genomes' if i % 5 == 0 else 'table'})
    for i in range(int((6 if tier == 'quick' else 50) * max(scale, 0.25))):
        # many samples and thousands of rows: pair loops, chunked passes and filters beyond their small-input paths
        nr = [700, 2000, 5000, 12000, 40000, 30000][i % 6]
        descs.insert(20 + 7 * i, {'ns': rng.randint(13, 48) if nr <= 5000 else rng.randint(3, 12), 'k': rng.choice([15, 31, 33]), 'seed': rng.getrandbits(32),
                                  'kind': 'table', 'nrows': nr})
    for i in range(int((3 if tier == 'quick' else 12) * max(scale, 0.34))):
        # hundreds of samples: per-row tallies beyond 255, tens of thousands of pairs
        descs.insert(10 + 5 * i, {'ns': [257, 514, 300, 256, 520, 258][i % 6], 'k': rng.choice([15, 31, 33]), 'seed': rng.getrandbits(32), 'kind': 'table',
                                  'nrows': rng.randint(8, 20), 'crowd': True})
    for i, d in enumerate(descs):
        d['chk'] = (i % 6 == 0) and not d.get('nrows')
    return descs


def make_unamb(rng, k, ns, nrows):
    rows = {}
    dup = rng.random() < 0.3 and ns >= 2
    while len(rows) < nrows:
        arms = G.canonical_arms(rng, k)
        if arms in rows:
            continue
        st = rng.randrange(5)
        bases = []
        for s in range(ns):
            if st == 0:
                b = rng.choice('ACGT')
            elif st == 1:
                b = 'A'
            elif st == 2:
                b = rng.choice(['A', '-', '-'])
            elif st == 3:
                b = rng.choice('AAAC-')
            else:
                b = rng.choice('AC--')
            bases.append(b)
        if dup:
            bases[1] = bases[0]
        if all(b == '-' for b in bases):
            continue
        rows[arms] = bases
    for s in range(ns):
        if all(r[s] == '-' for r in rows.values()):
            first = next(iter(rows))
            rows[first][s] = 'A'
            if dup and s in (0, 1):
                rows[first][0] = rows[first][1] = 'A'
    return rows


def genome_rows(rng, k, ns):
    """Rows of the model table of planted-SNP genomes (built from real sequences, not from constructed rows)."""
    anc = G.rseq(rng, rng.randint(4 * k, 12 * k))
    samples = []
    for s in range(ns):
        t = list(anc)
        for _ in range(rng.randint(0, 4)):
            t[rng.randrange(len(t))] = rng.choice('ACGT')
        if rng.random() < 0.3:
            cut = rng.randrange(len(t))
            t = t[:cut]        # truncated assembly: k-mer set mismatch
        if len(t) < k:
            t = list(anc)
        samples.append([''.join(t)])
    return samples


def exp_dist(rows, ns, names, mf):
    thr = M.ceil_thr(mf, ns)
    R = [b for b in rows.values() if sum(1 for x in b if x != '-') >= thr]
    out = []
    for i in range(ns):
        for j in range(i + 1, ns):
            snp = sum(1 for b in R if b[i] != '-' and b[j] != '-' and b[i] != b[j])
            one = sum(1 for b in R if (b[i] == '-') != (b[j] == '-'))
            any_ = sum(1 for b in R if b[i] != '-' or b[j] != '-')
            out.append((names[i], names[j], Fraction(snp), Fraction(one, any_) if any_ else Fraction(0)))
    return out, len(rows) - len(R)


def parse_dist(txt):
    lines = txt.strip().split('\n')
    if not lines or lines[0] != 'Sample1\tSample2\tDistance\tMismatches':
        raise ValueError('header %r' % (lines[:1],))
    out = []
    for x in lines[1:]:
        f = x.split('\t')
        out.append((f[0], f[1], f[2], f[3]))
    return out


def compare(got, exp):
    bad = []
    if len(got) != len(exp):
        bad.append('%d pair lines, expected %d' % (len(got), len(exp)))
        return bad
    for g, e in zip(got, exp):
        if g[0] != e[0] or g[1] != e[1]:
            bad.append('pair %s/%s where %s/%s expected' % (g[0], g[1], e[0], e[1]))
            continue
        d, m = Fraction(g[2]), Fraction(g[3])
        if abs(d - e[2]) > Fraction(1, 200) or abs(m - e[3]) > Fraction(5001, 10**9) or not (0 <= m <= 1):
            bad.append('%s/%s: got (%s, %s) expected (%s, %.5f)' % (g[0], g[1], g[2], g[3], e[2], float(e[3])))
    return bad


def run_case(desc, ctx):
    res = Result()
    k, ns = desc['k'], desc['ns']
    rng = random.Random(desc['seed'])
    names = ['s%d' % i for i in range(ns)]
    if desc['kind'] == 'genomes':
        samples = genome_rows(rng, k, ns)
        rows = M.table_of(samples, k, True)
        if any(M.is_ambig(b) for r in rows.values() for b in r):
            res.count('genome_set_with_ambiguity_skipped')
            return res
        fns = [G.write_fa(ctx.path('s%d.fa' % i), recs) for i, recs in enumerate(samples)]
    else:
        rows = make_unamb(rng, k, ns, desc.get('nrows') or rng.randint(1, 60))
        if desc.get('crowd'):
            # rows present in exactly 255 / 256 / 257 samples, with one or two alleles
            for want in (255, 256, 257, 256):
                if want <= ns:
                    arms = G.canonical_arms(rng, k)
                    idx = set(rng.sample(range(ns), want))
                    alle = rng.choice(['A', 'AC'])
                    rows[arms] = [rng.choice(alle) if i in idx else '-' for i in range(ns)]
            res.count('tables_of_256+_samples')
            if ns > 512:
                res.count('tables_of_513+_samples')
        fns = G.write_table_samples(ctx, rows, k, ns)
    res.see('nsamples', ns)
    res.see('k', k)
    for variant in (['rel', 'chk'] if desc.get('chk') else ['rel']):
        b = ctx.bins[variant]
        dup = desc['seed'] % 10 == 7 and ns >= 3 and not desc.get('nrows')
        if dup:
            # two samples with the same name (the same isolate from two runs): every unordered pair of SAMPLES still appears once
            r_ = random.Random(desc['seed'] ^ 0xd0)
            i_, j_ = sorted(r_.sample(range(ns), 2))
            names = ['s%d' % x for x in range(ns)]
            names[j_] = names[i_]
            lst = ctx.write('dup.list', ''.join('%s\t%s\n' % (names[x], fns[x]) for x in range(ns)))
            p = G.ska_build(ctx, ctx.path('t'), ['-f', lst], k, True, binary=b)
            if variant == 'rel':
                res.count('files_with_a_repeated_sample_name')
        else:
            p = G.ska_build(ctx, ctx.path('t'), fns, k, True, binary=b)
        if p.returncode != 0:
            res.count('setup_build_failed')
            return res
        hdr, T = G.nk(ctx, ctx.path('t.skf'), binary=b)
        if T != rows:
            res.count('table_readout_mismatch(C01)')
            return res
        # the same table as a file with a history: extra samples built in and deleted again, or two halves merged
        hist = None
        if desc['seed'] % 3 != 0 and not dup:
            hist = 'delete' if (desc['seed'] % 3 == 1 or ns < 2) else 'merge'
            if hist == 'delete':
                ne = rng.randint(1, 2)
                ext = {a: [rng.choice('ACGT-') for _ in range(ne)] for a in rows}
                for _ in range(rng.randint(1, 5)):
                    a = G.canonical_arms(rng, k)
                    if a not in rows:
                        ext[a] = ['A'] * ne                      # rows private to the samples deleted later
                xf = G.write_table_samples(ctx, ext, k, ne, prefix='x')
                allf = list(fns)
                for f in (xf or []):
                    allf.insert(rng.randrange(len(allf) + 1), f)
                ok = xf and G.ska_build(ctx, ctx.path('hall'), allf, k, True, binary=b).returncode == 0 and \
                    ctx.sh(b, 'delete', '-s', ctx.path('hall.skf'), '-o', ctx.path('th'), *['x%d' % i for i in range(ne)]).returncode == 0
            else:
                cut = rng.randint(1, ns - 1)
                ok = G.ska_build(ctx, ctx.path('h0'), fns[:cut], k, True, binary=b).returncode == 0 and \
                    G.ska_build(ctx, ctx.path('h1'), fns[cut:], k, True, binary=b).returncode == 0 and \
                    ctx.sh(b, 'merge', ctx.path('h0.skf'), ctx.path('h1.skf'), '-o', ctx.path('th')).returncode == 0
            try:
                hh, Th = G.nk(ctx, ctx.path('th.skf'), binary=b) if ok else (None, None)
            except (G.NkFailed, ValueError):
                hh, Th = None, None
            if Th != rows or hh.get('names') != names:
                res.count('history_file_not_as_modelled(C07/C08)')
                hist = None
        perm = list(range(ns))
        rng.shuffle(perm)
        G.ska_build(ctx, ctx.path('tp'), [fns[i] for i in perm], k, True, binary=b)
        if desc.get('nrows') and variant == 'rel':
            res.count('large_tables')
            if desc['nrows'] > 8192 and not desc.get('crowd'):
                res.count('tables_over_8192_rows')
        freqs = ['0'] + [('%.4f' % (j / ns)).rstrip('0').rstrip('.') for j in range(1, ns + 1) if (j * 10000) % ns == 0]
        freqs += ['0.3', '0.45', '0.6', '0.85']          # f*n not integral for most n: ceil matters
        settings = []
        for rep in range(4 if variant == 'rel' else 1):
            settings.append((rng.choice(freqs) if rep else rng.choice(['0', '1'] + freqs), rng.random() < 0.5, rng.choice([1, 2, 4, 8, 16])))
        if (desc.get('nrows') or 0) > 16384:
            # more threads than samples on a table of several times 2^14 rows: whatever is then split by rows instead of by pairs
            settings[0] = ('0', settings[0][1], 16)
            settings[1] = (settings[1][0], settings[1][1], 16)
        for (mf, aa, thr) in settings:
            args = ['--min-freq', mf, '--threads', thr] + (['--allow-ambiguous'] if aa else [])
            a = ctx.sh(b, 'distance', ctx.path('t.skf'), *args)
            if variant == 'chk':
                res.count('chk_runs')
                if a.returncode != 0 and 'overflow' in a.stderr:
                    res.count('chk_overflow_panics')
                    continue
            else:
                res.evals += 1
                res.count('threads:%d' % thr)
                if thr > ns and len(rows) > 32768:
                    res.count('more_threads_than_samples_on_tables_over_32768_rows')
                if aa:
                    res.count('allow_ambiguous')
            sig = 'C14:%s:%s' % (desc['kind'], 'minfreq' if Fraction(mf) > 0 else 'nofreq')
            if a.returncode != 0:
                res.violate(sig + ':failed', 'k=%d ns=%d min-freq=%s: distance failed: %s' % (k, ns, mf, a.stderr.strip()[-200:]), {'rows': rows})
                continue
            try:
                got = parse_dist(a.stdout)
            except (ValueError, IndexError) as e:
                res.violate(sig + ':unparsable', 'unparsable output: %s' % e, {'rows': rows, 'out': a.stdout[:500]})
                continue
            exp, dropped = exp_dist(rows, ns, names, mf)
            bad = compare(got, exp)
            if bad:
                res.violate(sig, 'k=%d ns=%d min-freq=%s (threshold %d, %d of %d rows below it) allow-ambiguous=%s threads=%d (%s): %s'
                            % (k, ns, mf, M.ceil_thr(mf, ns), dropped, len(rows), aa, thr, variant, '; '.join(bad[:3])),
                            {'rows': rows, 'args': args, 'got': got})
                continue
            if variant != 'rel':
                continue
            res.count('pairs_checked', len(exp))
            if dropped and ns >= 3:
                res.count('minfreq_drops_rows_with_3plus_samples')
            res.count('constant_rows', sum(1 for r in rows.values() if len(set(r)) == 1))
            pair_idx = [(i_, j_) for i_ in range(ns) for j_ in range(i_ + 1, ns)]
            for (n1, n2, d, m), (i, j) in zip(exp, pair_idx):
                if all(r[i] == r[j] for r in rows.values()):
                    res.count('identical_sample_pairs')
                    if d != 0 or m != 0:
                        raise AssertionError('model inconsistency')
            if any(e[2] > 0 and 0 < e[3] < 1 for e in exp):
                res.nontrivial.append(fingerprint([k, rows, mf, aa, thr]))
            if desc['seed'] % 4 == 3 and not dup and not desc.get('nrows') and aa and (mf, aa, thr) == [s_ for s_ in settings if s_[1]][0]:
                # library route (harness): the distances of a filtered array do not depend on whether distances were already
                # asked for before the filter was applied (a second call inside one process)
                outs_ = []
                for op_ in ('dist', 'dist2'):
                    ph = ctx.sh(ctx.bins['harness'], 'rt', 'mem', k, 1, ctx.path('h.skf'), op_, mf, '--', *fns, timeout=300)
                    outs_.append(ph.stdout if ph.returncode == 0 else 'exit %d %s' % (ph.returncode, ph.stderr[-100:]))
                res.evals += 1
                # (the harness applies one combined filter, not the command's sequence of filters: the two library runs are compared
                # with each other, the command-line figures are judged above)
                badl = [] if outs_[0] == outs_[1] and not outs_[0].startswith('exit') else ['a second call gives other figures than a first call on the same state']
                if badl:
                    res.violate('C14:library-second-call', 'k=%d ns=%d min-freq=%s: distances asked for again after filtering (library route): %s' % (k, ns, mf, '; '.join(badl[:2])),
                                {'rows': rows, 'first': outs_[0][:300], 'second': outs_[1][:300]})
                else:
                    res.count('library_second_calls_compared')
            if desc['seed'] % 5 == 2 and not dup and (mf, aa, thr) == settings[0]:
                # the file under a bare name, next to a VALID but different file called <name>.skf of the other integer width
                shutil.copy(ctx.path('t.skf'), ctx.path('panel'))
                k2 = 15 if k > 31 else 41
                G.write_fa(ctx.path('sib.fa'), [G.rseq(rng, 3 * k2)])
                G.write_fa(ctx.path('sib2.fa'), [G.rseq(rng, 3 * k2)])
                if G.ska_build(ctx, ctx.path('panel'), [ctx.path('sib.fa'), ctx.path('sib2.fa')], k2, True, binary=b).returncode == 0:
                    ab = ctx.sh(b, 'distance', ctx.path('panel'), *args)
                    res.evals += 1
                    try:
                        badb = compare(parse_dist(ab.stdout), exp) if ab.returncode == 0 else ['exit %d' % ab.returncode]
                    except (ValueError, IndexError) as e:
                        badb = ['unparsable: %s' % e]
                    if badb:
                        res.violate('C14:bare-name', 'k=%d: `ska distance panel` (a file without suffix, next to another file panel.skf built with k=%d) does not report the distances of the file named: %s'
                                    % (k, k2, '; '.join(badb[:2])), {'rows': rows, 'args': args})
                    else:
                        res.count('files_under_a_bare_name_next_to_a_sibling')
            if hist:
                # same content, different history; written with -o over an existing longer file
                out = G.stale_file(ctx, 'stale.dist')
                ah = ctx.sh(b, 'distance', ctx.path('th.skf'), *args, '-o', out)
                res.evals += 1
                badh = ['exit %d: %s' % (ah.returncode, ah.stderr.strip()[-150:])]
                if ah.returncode == 0:
                    try:
                        badh = compare(parse_dist(open(out).read()), exp)
                    except (ValueError, IndexError) as e:
                        badh = ['unparsable output: %s' % e]
                if badh:
                    res.violate('C14:history:' + hist, 'k=%d ns=%d min-freq=%s allow-ambiguous=%s threads=%d: the same table after a %s gives other distances (-o file): %s'
                                % (k, ns, mf, aa, thr, hist, '; '.join(badh[:3])), {'rows': rows, 'args': args, 'history': hist})
                else:
                    res.count('history:' + hist)
                    if aa and dropped:
                        res.count('history_allow_ambiguous_minfreq_drops')
            if dup:
                continue
            # permutation invariance: same unordered pair, same values (model-free)
            ap = ctx.sh(b, 'distance', ctx.path('tp.skf'), *args)
            res.evals += 1
            if ap.returncode == 0:
                gp = {frozenset((x[0], x[1])): (x[2], x[3]) for x in parse_dist(ap.stdout)}
                g0 = {frozenset((x[0], x[1])): (x[2], x[3]) for x in got}
                if gp != g0:
                    diff = [(sorted(kk), g0.get(kk), gp.get(kk)) for kk in set(g0) | set(gp) if g0.get(kk) != gp.get(kk)]
                    res.violate('C14:permutation', 'distances change under sample permutation %s: %s' % (perm, diff[:3]), {'rows': rows, 'args': args})
                else:
                    res.count('permutation_checked')
            else:
                res.violate('C14:permutation', 'distance failed on the permuted file: %s' % ap.stderr[-150:], {'rows': rows})
    if res.sample is None:
        res.sample = {'k': k, 'ns': ns, 'kind': desc['kind'], 'rows': dict(list(rows.items())[:5]), 'nrows': len(rows)}
    return res
