"""C15 - Ambiguity codes form the union algebra over {A,C,G,T}; complement respects it (complete enumeration)."""
import itertools
import os
import random
import subprocess

from .. import build
from .. import gen as G
from .. import model as M
from ..run import Result, fingerprint, Inconclusive

ID = 'C15'
LEVEL = 'exploration'
BUDGET = {'quick': 200, 'thorough': 1200}
CHUNK = 1
RULE = ('Complete enumeration of the finite domains, dumped from the real tables/functions by the harness: the 4x256 union '
        'table (every byte x base), the 256-entry complement table, is_ambiguous and base_to_prob on all 256 bytes, '
        'encode/decode/complement of single bases; each value is compared with set algebra computed from the IUPAC '
        'definition (vlib/model.py).  Derived laws (commutativity, associativity, idempotence, monotonicity of repeated union; '
        'complement is an involution that fixes S, W, N, -) are checked on the dumped values.  The same dump is repeated under '
        'Miri (undefined-behaviour interpreter).  Uses through the command line: one k-mer observed with every non-empty '
        'subset of middle bases in every order (64 orderings) through `ska build` (also with self-complementary arms, where the stored code is that of the set closed under complement; and as consecutive windows of one record, at the junction of two homopolymer runs), and `ska map` (plain, --ambig-mask, --repeat-mask; 64- and 128-bit k) through every code on the '
        'reverse strand (alone, and again on the other strand further along the reference), and `ska distance --allow-ambiguous [--min-freq f]` on tables holding every code in 2..7 samples, compared with 1 - sum p_a p_b for uniform weights (N without weight; rows constant over all samples left out).  Non-trivial: a table cell / function value whose expected value is not the default; distinct = cell.')
ASSUMPTIONS = ['for U/u the complement table may give A or - (the statement does not cover it)',
               'IUPAC letter sets as in vlib/model.py SETS']
REQUIRED = {t: ['cells:IUPAC', 'cells:RC', 'cells:AMBIG', 'cells:PROB', 'laws_checked', 'orderings_through_build',
                'codes_through_map_reverse_strand', 'codes_through_map_inverted_repeat', 'miri_dump_identical',
                'weights_through_distance', 'dist_pairs_with_identical_ambiguous_codes', 'orderings_with_self_complementary_arms',
                'mask_flags_through_map_128bit', 'mask_flags_through_map_64bit', 'weights_through_distance_with_min_freq', 'junction_sightings_through_build', 'orderings_over_two_files_of_a_sample', 'codes_through_align_mask', 'codes_through_weed_mask', 'codes_through_count_as_missing'] for t in ('quick', 'thorough')}
LETTERS = [c for c in M.CODES] + [c.lower() for c in M.CODES]


def builds(tier):
    return ['rel', 'harness']


def plan(tier, seed, rng, scale):
    descs = [{'kind': 'tables'}, {'kind': 'miri'}]
    ks = [5, 9, 31, 33, 63] if tier == 'quick' else G.ALL_K
    for k in ks:
        for rcmode in (True, False):
            descs.append({'kind': 'orderings', 'k': k, 'rc': rcmode, 'seed': rng.getrandbits(32)})
            if rcmode:
                descs.append({'kind': 'orderings', 'k': k, 'rc': True, 'selfcomp': True, 'seed': rng.getrandbits(32)})
            descs.append({'kind': 'maprc', 'k': k, 'rc': rcmode, 'seed': rng.getrandbits(32)})
    for k in ks:
        for rcmode in (True, False):
            descs.append({'kind': 'junction', 'k': k, 'rc': rcmode, 'seed': rng.getrandbits(32)})
    for i in range(150 if tier == 'quick' else 3000):
        descs.append({'kind': 'dist', 'k': rng.choice(ks), 'rc': True, 'ns': rng.randint(2, 7), 'seed': rng.getrandbits(32)})
    return descs


def pair_weight(a, b):
    """Expected contribution of a pair of stored symbols to the distance: 1 - sum_x p_a(x) p_b(x), p uniform over the
    code's set, N without weight."""
    from fractions import Fraction
    sa = M.CODE_SET[a] if a != 'N' else set()
    sb = M.CODE_SET[b] if b != 'N' else set()
    if not sa or not sb:
        return Fraction(1)
    return 1 - Fraction(len(sa & sb), len(sa) * len(sb))


def parse_dump(txt):
    d = {'IUPAC': {}, 'RC': {}, 'AMBIG': {}, 'PROB': {}, 'ENC': {}, 'DEC': {}, 'RCB': {}, 'LEN': None}
    for l in txt.split('\n'):
        f = l.split('\t')
        if f[0] == 'IUPAC':
            d['IUPAC'][(int(f[1]), int(f[2]))] = int(f[3])
        elif f[0] == 'RC':
            d['RC'][int(f[1])] = int(f[2])
        elif f[0] == 'AMBIG':
            d['AMBIG'][int(f[1])] = int(f[2])
        elif f[0] == 'PROB':
            d['PROB'][int(f[1])] = tuple(float(x) for x in f[2:6])
        elif f[0] == 'ENC':
            d['ENC'][int(f[1])] = (int(f[2]), int(f[3]))
        elif f[0] == 'DEC':
            d['DEC'][int(f[1])] = int(f[2])
        elif f[0] == 'RCB':
            d['RCB'][int(f[1])] = int(f[2])
        elif f[0] == 'LEN':
            d['LEN'] = (int(f[1]), int(f[2]))
    return d


BASES = 'ACTG'      # two-bit encoding order


def judge_tables(res, d):
    def bad(sig, what):
        res.violate('C15:' + sig, what, None)

    if d['LEN'] != (1024, 256) or len(d['IUPAC']) != 1024 or len(d['RC']) != 256:
        bad('shape', 'table sizes %s' % (d['LEN'],))
        return
    # single-base encodings used as the table index
    for i, b in enumerate(BASES):
        for c in (b, b.lower()):
            if d['ENC'][ord(c)][0] != i:
                bad('enc:%s' % c, 'encode_base(%s)=%d expected %d' % (c, d['ENC'][ord(c)][0], i))
        if d['DEC'][i] != ord(b):
            bad('dec:%d' % i, 'decode_base(%d)=%s' % (i, chr(d['DEC'][i])))
        if chr(d['DEC'][d['RCB'][i]]) != M.COMP[b]:
            bad('rcb:%d' % i, 'rc_base(%s)=%s' % (b, chr(d['DEC'][d['RCB'][i]])))
    for x in range(256):
        want_valid = 0 if chr(x) in 'Nn' else 1
        if chr(x).upper() in 'ACGTN' and d['ENC'][x][1] != want_valid:
            bad('valid:%d' % x, 'valid_base(%r)=%d' % (chr(x), d['ENC'][x][1]))
    # union table
    for bi, b in enumerate(BASES):
        for x in range(256):
            c = chr(x)
            got = d['IUPAC'][(bi, x)]
            if c.upper() in M.CODE_SET and c.isalpha():
                want = ord(M.code_of(set(M.CODE_SET[c.upper()]) | {b}))
                res.count('cells:IUPAC')
                res.nontrivial.append('IUPAC:%d:%d' % (bi, x))
            else:
                want = 0
                res.count('cells:IUPAC')
            if got != want:
                bad('IUPAC:%s+%s' % (c if c.isprintable() else x, b),
                    'union table [%s + %r] = %r, expected %r' % (b, c, chr(got) if got else 0, chr(want) if want else 0))
    # complement table
    for x in range(256):
        c = chr(x)
        got = chr(d['RC'][x])
        res.count('cells:RC')
        if c.upper() in M.CODE_SET and c.isalpha():
            want = M.comp_code(c.upper())
            res.nontrivial.append('RC:%d' % x)
            if got != want:
                bad('RC:%s' % c, 'complement(%r) = %r, expected %r' % (c, got, want))
            back = chr(d['RC'][ord(got)]) if got != '-' else '-'
            if back != c.upper():
                bad('RC:involution:%s' % c, 'complement(complement(%r)) = %r' % (c, back))
        elif c in 'Uu':
            if got not in ('A', '-'):
                bad('RC:U', 'complement(%r) = %r' % (c, got))
        elif got != '-':
            bad('RC:%d' % x, 'complement(byte %d) = %r, expected -' % (x, got))
    for c in 'SWN':
        if chr(d['RC'][ord(c)]) != c:
            bad('RC:fixed:%s' % c, '%s is not fixed by complement' % c)
    # classification
    for x in range(256):
        c = chr(x)
        res.count('cells:AMBIG')
        if c.upper() in M.AMBIG and c.isalpha():
            want = 1
            res.nontrivial.append('AMBIG:%d' % x)
        elif c.upper() in 'ACGTU' and c.isalpha() or c == '-':
            want = 0
            res.nontrivial.append('AMBIG:%d' % x)
        else:
            continue      # the statement classifies IUPAC letters, U and the gap only
        if d['AMBIG'][x] != want:
            bad('AMBIG:%s' % c, 'is_ambiguous(%r) = %d, expected %d' % (c, d['AMBIG'][x], want))
    # distance weights, order (A, C, T, G)
    for x in range(256):
        c = chr(x)
        if not ((c.upper() in M.CODE_SET and c.isalpha()) or c in 'Uu-'):
            continue
        res.count('cells:PROB')
        res.nontrivial.append('PROB:%d' % x)
        cu = c.upper()
        if cu == 'N' or c == '-':
            want = (0.0, 0.0, 0.0, 0.0)
        else:
            s = M.CODE_SET['T' if cu == 'U' else cu]
            want = tuple((1.0 / len(s)) if b in s else 0.0 for b in BASES)
        got = d['PROB'][x]
        if any(abs(g - w) > 1e-12 for g, w in zip(got, want)):
            bad('PROB:%s' % c, 'base_to_prob(%r) = %s, expected %s' % (c, got, want))
    # derived laws on the dumped union table
    def union(code, b):
        return chr(d['IUPAC'][(BASES.index(b), ord(code))])
    for code in M.CODES:
        for b1 in BASES:
            u1 = union(code, b1)
            if u1 == '\0':
                continue
            if union(u1, b1) != u1:
                bad('law:idempotent', '(%s+%s)+%s != %s+%s' % (code, b1, b1, code, b1))
            if not M.CODE_SET[code] <= M.CODE_SET.get(u1, frozenset()):
                bad('law:monotone', '%s + %s = %s loses a base' % (code, b1, u1))
            for b2 in BASES:
                u2 = union(code, b2)
                if u2 != '\0' and union(u1, b2) != union(u2, b1):
                    bad('law:commutative', '%s+%s+%s != %s+%s+%s' % (code, b1, b2, code, b2, b1))
                res.count('laws_checked')
    res.evals += 1024 + 256 * 3


def harness_dump(ctx):
    p = ctx.sh(ctx.bins['harness'], 'tables')
    if p.returncode != 0:
        raise Inconclusive('harness tables failed: ' + p.stderr[-200:])
    return p.stdout


def run_case(desc, ctx):
    res = Result()
    kind = desc['kind']
    if kind == 'tables':
        txt = harness_dump(ctx)
        judge_tables(res, parse_dump(txt))
        res.sample = {'dump_lines': txt.count('\n'), 'first_union_cells': txt.split('\n')[65:70]}
        return res
    if kind == 'miri':
        cmd, env, cwd = build.miri_cmd(['tables'])
        try:
            p = subprocess.run(cmd, cwd=cwd, env=env, capture_output=True, text=True, timeout=900)
        except subprocess.TimeoutExpired:
            raise Inconclusive('miri timed out')
        if 'Undefined Behavior' in p.stderr or 'error: unsupported operation' in p.stderr:
            res.violate('C15:miri', 'Miri reports an error while evaluating the tables: ' + p.stderr[-400:], p.stderr[-3000:])
            return res
        if p.returncode != 0:
            raise Inconclusive('miri run failed: ' + p.stderr[-300:])
        native = harness_dump(ctx)
        res.evals += 1
        if p.stdout != native:
            res.violate('C15:miri-differs', 'the dump under Miri differs from the native dump', None)
        else:
            res.count('miri_dump_identical')
            judge_tables(res, parse_dump(p.stdout))
        return res
    k, rcmode = desc['k'], desc['rc']
    rng = random.Random(desc['seed'])
    h = (k - 1) // 2
    if kind == 'orderings':
        # one k-mer observed with every non-empty subset of middles, in every order, with multiplicities
        arms = G.canonical_arms(rng, k, rcmode)
        selfcomp = rcmode and desc.get('selfcomp', False)
        if selfcomp:
            # arms that are their own reverse complement: every sighting of a middle base is also one of its complement
            a_ = G.rseq(rng, h)
            arms = a_ + M.rc(a_)
        for r in range(1, 5):
            for subset in itertools.combinations('ACGT', r):
                for order in itertools.permutations(subset):
                    seq = list(order)
                    if rng.random() < 0.5:
                        seq = seq + [rng.choice(seq)]          # multiplicity
                    recs = []
                    for m in seq:
                        w = arms[:h] + m + arms[h:]
                        if rcmode and rng.random() < 0.5:
                            w = M.rc(w)
                        recs.append(w + 'N')
                    G.write_fa(ctx.path('o.fa'), recs)
                    if len(recs) >= 2 and rng.random() < 0.35:
                        # the sightings spread over the two files of one sample (name, file 1, file 2): the code is that of the
                        # union over both files, whichever file brings which bases
                        cut_ = rng.randint(1, len(recs) - 1)
                        G.write_fa(ctx.path('o1.fa'), recs[:cut_])
                        G.write_fa(ctx.path('o2.fa'), recs[cut_:])
                        lst_ = ctx.write('o.list', 'o\t%s\t%s\n' % (ctx.path('o1.fa'), ctx.path('o2.fa')))
                        p = G.ska_build(ctx, ctx.path('o'), ['-f', lst_], k, rcmode)
                        res.count('orderings_over_two_files_of_a_sample')
                    else:
                        p = G.ska_build(ctx, ctx.path('o'), [ctx.path('o.fa')], k, rcmode)
                    res.evals += 1
                    if p.returncode != 0:
                        res.violate('C15:build-failed', 'build failed: %s' % p.stderr[-150:], {'records': recs})
                        continue
                    hdr, T = G.nk(ctx, ctx.path('o.skf'))
                    want = {arms: [M.code_of(set(subset) | {M.rc(b_) for b_ in subset}) if selfcomp else M.code_of(subset)]}
                    if selfcomp:
                        res.count('orderings_with_self_complementary_arms')
                    if T != want:
                        res.violate('C15:order:%s' % ''.join(order),
                                    'k=%d rc=%s: middles seen in order %s give %s, expected %s' % (k, rcmode, seq, T, want), {'records': recs})
                    else:
                        res.count('orderings_through_build')
                        res.nontrivial.append(fingerprint([k, rcmode, order]))
        if not selfcomp:
            # one file of the sample holds a single base, the other all four (and the other way round)
            for b1 in 'ACGT':
                for first_single in (True, False):
                    one = [arms[:h] + b1 + arms[h:] + 'N']
                    four = [arms[:h] + x + arms[h:] + 'N' for x in rng.sample('ACGT', 4)]
                    G.write_fa(ctx.path('t1.fa'), one if first_single else four)
                    G.write_fa(ctx.path('t2.fa'), four if first_single else one)
                    lst_ = ctx.write('t.list', 'o\t%s\t%s\n' % (ctx.path('t1.fa'), ctx.path('t2.fa')))
                    p = G.ska_build(ctx, ctx.path('t'), ['-f', lst_], k, rcmode)
                    res.evals += 1
                    try:
                        _ht, Tt = G.nk(ctx, ctx.path('t.skf')) if p.returncode == 0 else (None, None)
                    except (G.NkFailed, ValueError):
                        Tt = None
                    if Tt != {arms: ['N']}:
                        res.violate('C15:two-files:%s' % b1, 'k=%d rc=%s: %s in one file and all four bases in the other file of the same sample give %s, expected N'
                                    % (k, rcmode, b1, Tt), {'arms': arms, 'first_file_single': first_single})
                    else:
                        res.count('orderings_over_two_files_of_a_sample')
        return res
    if kind == 'junction':
        # two sightings of one split k-mer in CONSECUTIVE windows of one record: the junction of two runs b^(h+1) c^(h+1) holds the
        # arms b^h . c^h once with middle b and once with middle c; also three sightings around a run of exactly h+2, and the same
        # with a spacer base between the runs
        for b1 in 'ACGT':
            for b2 in 'ACGT':
                if b1 == b2:
                    continue
                for layout in ('plain', 'flanked', 'lower'):
                    rec = b1 * (h + 1) + b2 * (h + 1)
                    if layout == 'flanked':
                        rec = G.rseq(rng, rng.randint(1, k)) + rec + G.rseq(rng, rng.randint(1, k))
                    if layout == 'lower':
                        rec = rec.lower()
                    G.write_fa(ctx.path('j.fa'), [rec])
                    p = G.ska_build(ctx, ctx.path('j'), [ctx.path('j.fa')], k, rcmode)
                    res.evals += 1
                    want = M.table_of([[rec]], k, rcmode)
                    try:
                        _hj, Tj = G.nk(ctx, ctx.path('j.skf')) if p.returncode == 0 else (None, None)
                    except (G.NkFailed, ValueError):
                        Tj = None
                    if Tj != want:
                        d_ = [(x, (Tj or {}).get(x), want.get(x)) for x in set(Tj or {}) | set(want) if (Tj or {}).get(x) != want.get(x)]
                        res.violate('C15:junction:%s%s' % (b1, b2), 'k=%d rc=%s: record %s (runs of %s and %s meeting): stored %s' % (k, rcmode, rec if len(rec) < 80 else rec[:77] + '...', b1, b2, d_[:3]),
                                    {'record': rec})
                    else:
                        res.count('junction_sightings_through_build')
                        res.nontrivial.append(fingerprint([k, rcmode, b1, b2, layout]))
        return res
    if kind == 'dist':
        # the weights at their point of use: `ska distance --allow-ambiguous` on tables holding every code
        from fractions import Fraction
        ns = desc['ns']
        rows = G.make_table(rng, k, ns, rng.randint(3, 40), styles=('allcodes', 'allcodes', 'oneambig', 'onlyambig', 'bases'))
        # a row whose samples all carry the same symbol is set aside as constant before weights are applied: not judged here
        rows = {a: r for a, r in rows.items() if len(set(r)) > 1}
        fns = G.write_table_samples(ctx, rows, k, ns) if rows else None
        if not fns or G.ska_build(ctx, ctx.path('d'), fns, k, True).returncode != 0:
            res.count('dist_table_skipped')
            return res
        hdr, T = G.nk(ctx, ctx.path('d.skf'))
        if T != rows:
            res.count('table_readout_mismatch(C01)')
            return res
        # "counts as ambiguous" at the point of use: --ambig-mask (with no other filter) turns exactly the ambiguity codes into N
        pa0 = ctx.sh(ctx.ska, 'align', ctx.path('d.skf'), '--filter', 'no-filter', '--min-freq', '0')
        pa1 = ctx.sh(ctx.ska, 'align', ctx.path('d.skf'), '--filter', 'no-filter', '--min-freq', '0', '--ambig-mask')
        res.evals += 1
        if pa0.returncode == 0 and pa1.returncode == 0:
            n0_, s0_ = M.parse_fasta(pa0.stdout)
            n1_, s1_ = M.parse_fasta(pa1.stdout)
            want_ = sorted(''.join('N' if M.is_ambig(ch) else ch for ch in col) for col in M.columns(s0_))
            if sorted(M.columns(s1_)) != want_ or sorted(M.columns(s0_)) != sorted(''.join(r) for r in rows.values()):
                res.violate('C15:align-mask', 'k=%d ns=%d: `ska align --filter no-filter --min-freq 0 --ambig-mask` is not the unmasked alignment with exactly the ambiguity codes turned into N'
                            % (k, ns), {'rows': rows, 'masked': pa1.stdout[:600]})
            else:
                res.count('codes_through_align_mask', sum(1 for r in rows.values() for x in r if M.is_ambig(x)))
        else:
            res.violate('C15:align-mask-failed', 'align failed: %s' % (pa0.stderr + pa1.stderr)[-160:], {'rows': rows})
        # the same through `ska weed --ambig-mask` (no weed file, nothing else asked for): the stored codes become N, nothing is lost
        pw_ = ctx.sh(ctx.ska, 'weed', ctx.path('d.skf'), '--ambig-mask', '--min-freq', '0', '-o', ctx.path('dw.skf'))
        res.evals += 1
        try:
            _hw, Tw_ = G.nk(ctx, ctx.path('dw.skf')) if pw_.returncode == 0 else (None, None)
        except (G.NkFailed, ValueError):
            Tw_ = None
        if Tw_ != {a: ['N' if M.is_ambig(x) else x for x in r] for a, r in rows.items()}:
            res.violate('C15:weed-mask', 'k=%d ns=%d: `ska weed --ambig-mask --min-freq 0` does not store exactly the ambiguity codes as N (exit %d)' % (k, ns, pw_.returncode), {'rows': rows})
        else:
            res.count('codes_through_weed_mask')
        # what counts as ambiguous when ambiguous calls are to count as missing: rows with fewer than ceil(f*n) UNAMBIGUOUS calls drop out
        mfa = rng.choice([('%.4f' % (j / ns)).rstrip('0').rstrip('.') for j in range(1, ns + 1) if (j * 10000) % ns == 0])
        pf_ = ctx.sh(ctx.ska, 'align', ctx.path('d.skf'), '--filter', 'no-filter', '--min-freq', mfa, '--filter-ambig-as-missing')
        res.evals += 1
        wantf = sorted(''.join(v) for v in M.t_filter(rows, 'no-filter', M.ceil_thr(mfa, ns), True, False, False).values())
        gotf = sorted(M.columns(M.parse_fasta(pf_.stdout)[1])) if pf_.returncode == 0 else None
        if gotf != wantf:
            res.violate('C15:count-as-missing', 'k=%d ns=%d --min-freq %s --filter-ambig-as-missing: %s columns, %d expected when exactly the IUPAC letters other than A/C/G/T count as missing'
                        % (k, ns, mfa, None if gotf is None else len(gotf), len(wantf)), {'rows': rows})
        else:
            res.count('codes_through_count_as_missing')
        thr = rng.choice([1, 2, 4])
        # with a frequency threshold as well: rows present (any symbol counts) in fewer than ceil(f*n) samples drop out, the codes
        # of the others keep their weights
        mf = rng.choice(['0', '0'] + [('%.4f' % (j / ns)).rstrip('0').rstrip('.') for j in range(1, ns + 1) if (j * 10000) % ns == 0])
        thr_rows = M.ceil_thr(mf, ns)
        rows = {a: r for a, r in rows.items() if sum(1 for x in r if x != '-') >= thr_rows}
        if thr_rows >= 1:
            res.count('weights_through_distance_with_min_freq')
        p = ctx.sh(ctx.ska, 'distance', ctx.path('d.skf'), '--allow-ambiguous', '--min-freq', mf, '--threads', thr)
        res.evals += 1
        if p.returncode != 0:
            res.violate('C15:dist-failed', 'distance failed: %s' % p.stderr[-150:], {'rows': rows})
            return res
        lines = p.stdout.strip().split('\n')[1:]
        bad = []
        idx = 0
        npairs = 0
        for i in range(ns):
            for j in range(i + 1, ns):
                exp = sum(pair_weight(r[i], r[j]) for r in rows.values() if r[i] != '-' and r[j] != '-')
                f = lines[idx].split('\t') if idx < len(lines) else ['?', '?', '-1', '-1']
                idx += 1
                if f[0] != 's%d' % i or f[1] != 's%d' % j or abs(Fraction(f[2]) - exp) > Fraction(501, 100000):
                    amb = [(r[i], r[j]) for r in rows.values() if r[i] != '-' and r[j] != '-' and (M.is_ambig(r[i]) or M.is_ambig(r[j]))]
                    bad.append('%s: distance %s, expected %.4f from uniform weights; ambiguous pairs %s' % (f[:2], f[2], float(exp), amb[:6]))
                else:
                    npairs += sum(1 for r in rows.values() if r[i] != '-' and r[j] != '-' and (M.is_ambig(r[i]) or M.is_ambig(r[j])))
                    if any(r[i] == r[j] and M.is_ambig(r[i]) and r[i] != 'N' for r in rows.values()):
                        res.count('dist_pairs_with_identical_ambiguous_codes')
        if bad:
            res.violate('C15:dist', 'k=%d ns=%d threads=%d --min-freq %s: %s' % (k, ns, thr, mf, '; '.join(bad[:2])), {'rows': rows, 'out': p.stdout})
        else:
            res.count('weights_through_distance', npairs)
            res.nontrivial.append(fingerprint([k, rows]))
        return res
    if kind == 'maprc':
        # a reference k-mer stored in the reverse orientation, sample carrying every code
        for code in M.CODES:
            while True:
                w = G.rseq(rng, k)
                sk, m, flip, pal = M.canon_split(w, rcmode)
                if (flip or not rcmode) and not pal:
                    break
            # the sample holds the stored orientation with the set of middles of `code`
            recs = [sk[:h] + b + sk[h:] + 'N' for b in sorted(M.CODE_SET[code])]
            G.write_fa(ctx.path('s.fa'), recs)
            # the same k-mer once more on the other strand further along (inverted repeat): each occurrence is oriented on its own
            inverted = rcmode and rng.random() < 0.6
            ctx.write('ref.fa', '>c\n%s\n' % (w + 'N' + M.rc(w) if inverted else w))
            p = G.ska_build(ctx, ctx.path('o'), [ctx.path('s.fa')], k, rcmode)
            # mask flags at their point of use: --ambig-mask turns exactly the ambiguous symbols into N, --repeat-mask the
            # positions around a reference k-mer that occurs twice (both strands count as one k-mer when strands are merged)
            flag = [None, '--ambig-mask', '--repeat-mask'][(M.CODES.index(code) + desc['seed']) % 3]
            m_ = ctx.sh(ctx.ska, 'map', ctx.path('ref.fa'), ctx.path('o.skf'), *([flag] if flag else []))
            res.evals += 1
            if p.returncode != 0 or m_.returncode != 0:
                res.violate('C15:map-failed', 'map failed: %s' % m_.stderr[-150:], {'ref': w, 'records': recs})
                continue
            _n, seqs = M.parse_fasta(m_.stdout)

            def shown(c):
                return 'N' if flag == '--ambig-mask' and M.is_ambig(c) else c
            want = w[:h] + shown(M.comp_code(code) if flip else code) + w[h + 1:]
            if inverted:
                w2 = M.rc(w)
                want += '-' + w2[:h] + shown(code if flip else M.comp_code(code)) + w2[h + 1:]
                res.count('codes_through_map_inverted_repeat')
                if flag == '--repeat-mask':
                    want = 'N' * k + '-' + 'N' * k
            if flag and k > 31:
                res.count('mask_flags_through_map_128bit')
            if flag and k <= 31:
                res.count('mask_flags_through_map_64bit')
            if seqs != [want]:
                res.violate('C15:map:%s' % code, 'k=%d rc=%s %s: code %s on the %s strand maps to %s, expected %s'
                            % (k, rcmode, flag or '', code, 'reverse' if flip else 'forward', seqs, want), {'ref': w, 'records': recs})
            else:
                if flip:
                    res.count('codes_through_map_reverse_strand')
                res.nontrivial.append(fingerprint([k, rcmode, code, flip]))
        return res
    raise ValueError(kind)


def coverage_extra(tier, counters, sets):
    return {'exhaustive': True,
            'exhaustive_scope': 'the union table (1024 cells), the complement table (256 cells) and the classification/weight '
                                'functions on all 256 byte values are enumerated completely; the uses through build/map are sampled'}
