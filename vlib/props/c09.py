"""C09 - .skf persistence is lossless and independent of the integer width chosen."""
import os
import random
import shutil

from .. import gen as G
from .. import model as M
from ..run import Result, fingerprint, Inconclusive
from . import c04, c07, c14

ID = 'C09'
LEVEL = 'exploration'
BUDGET = {'quick': 200, 'thorough': 2400}
CHUNK = 1
RULE = ('(a) Library round trip through the harness: samples are built in memory (build_and_merge + MergeSkaArray::new) and every '
        'result computed on the in-memory array (nk, filtered alignments, distances, map alignment and VCF, weed, delete) is '
        'compared with the same result computed after save + load (load tries 64 bits then 128, as the command line does); all '
        '30 k, tables from a handful to ~20 000 rows (several compression frames).  (b) Command line: `ska align/map <fastas>` '
        '(in-memory route, k=17; sequence files, and read files with qualities around the default threshold and multiplicities around the default count) against `ska build` with default options + the same command on the file.  (c) Narrow files: for k in '
        '{33,35,37,41,51,63}, tables whose stored k-mers all fit in 64 bits (arms starting with enough A) next to ordinary '
        'rows-shifted copies; nk, align, map, distance, weed (with random filter flags), a delete on the file that weed saved, delete and merge in both argument orders (output under plain and dotted prefixes, and written over one of the inputs) must agree with the '
        'model, and nk must report k_bits=128.  (f) Merges of 9..24 single-sample files in one call, forwards and backwards, against the table of their samples.  (e) Files whose table is empty after weeding/filtering (samples, no k-mers): read-out and merge as first, last and middle argument against the model.  (d) One build/save/load/read-out per width under Miri (quick: read-out at k=33; thorough: read-out at k=9,31,33,63 and align/weed/delete/map/distance at k=9 and 33), compared with the native run.  Non-trivial: the file has at least one k-mer and (c) really fits in 64 bits; '
        'distinct = distinct (k, mode, input, operation).')
ASSUMPTIONS = ['in-memory vs reloaded comparison is model-free; part (c) uses the reference model',
               'the harness reload mimics the command-line width dispatch (u64 first, then u128)']
REQUIRED = {t: ['rt:nk', 'rt:align', 'rt:dist', 'rt:map', 'rt:vcf', 'rt:weed', 'rt:delete', 'cli:align', 'cli:map',
                'narrow:nk', 'narrow:align', 'narrow:map', 'narrow:distance', 'cli-reads:align', 'cli-reads:map', 'merges_of_9+_files', 'sample_names_with_white_space_at_an_end', 'narrow:reverse-weed-nothing', 'narrow:weed', 'narrow:weed-then-delete', 'narrow:delete', 'narrow-merge-output:dotted', 'narrow-merge-output:onto-first-input', 'narrow-merge-output:onto-second-input',
                'narrow:merge-first', 'narrow:merge-second', 'narrow_files_fit_64_bits', 'multi_frame_files', 'rt_rows_compared', 'miri_round_trips', 'empty:nk', 'empty:merge-first', 'empty:merge-second', 'empty:merge-middle']
            for t in ('quick', 'thorough')}
NARROW_K = [33, 35, 37, 41, 51, 63]


def builds(tier):
    return ['rel', 'chk', 'harness']


def plan(tier, seed, rng, scale):
    descs = []
    for k in G.ALL_K:
        descs.append({'kind': 'rt', 'k': k, 'rc': rng.random() < 0.7, 'seed': rng.getrandbits(32), 'size': 'small'})
    n = int((200 if tier == 'quick' else 2000) * scale)
    for i in range(n):
        descs.append({'kind': 'rt', 'k': rng.choice(G.ALL_K), 'rc': rng.random() < 0.7, 'seed': rng.getrandbits(32),
                      'size': 'big' if i % 15 == 0 else 'small'})
    for i in range(int((120 if tier == 'quick' else 1000) * scale)):
        descs.append({'kind': 'cli', 'seed': rng.getrandbits(32)})
        if len(descs) % 3 == 0:
            descs.append({'kind': 'cli-reads', 'seed': rng.getrandbits(32)})
        if len(descs) % 10 == 0:
            descs.append({'kind': 'manymerge', 'nfiles': rng.choice([9, 10, 11, 13, 17, 24]), 'seed': rng.getrandbits(32)})
    for k in NARROW_K:
        for rcmode in (True, False):
            descs.append({'kind': 'narrow', 'k': k, 'rc': rcmode, 'seed': rng.getrandbits(32)})
    for i in range(int((200 if tier == 'quick' else 2000) * scale)):
        descs.append({'kind': 'narrow', 'k': rng.choice(NARROW_K), 'rc': rng.random() < 0.6, 'seed': rng.getrandbits(32)})
    for i, d in enumerate(descs):
        d['chk'] = d['kind'] == 'narrow' and i % 4 == 0
    for k in ([33] if tier == 'quick' else [9, 31, 33, 63]):
        descs.append({'kind': 'miri', 'k': k, 'op': 'nk', 'seed': rng.getrandbits(32)})
    if tier == 'thorough':
        for k in (9, 33):
            for op in ('align', 'weed', 'delete', 'map', 'dist'):
                descs.append({'kind': 'miri', 'k': k, 'op': op, 'seed': rng.getrandbits(32)})
    for i in range(int((60 if tier == 'quick' else 600) * scale)):
        descs.append({'kind': 'empty', 'k': rng.choice([9, 17, 31, 33, 41, 63]), 'rc': rng.random() < 0.7, 'seed': rng.getrandbits(32)})
    return descs


def norm_nk(txt):
    txt = '\n'.join(l for l in txt.split('\n') if not l.startswith('#loaded-as'))
    hdr, table = M.parse_nk(txt)
    return {k: hdr.get(k) for k in ('k', 'rc', 'k-mers', 'samples', 'names', 'k_bits')}, table, sorted(zip(hdr.get('names', []), hdr.get('kmers_per_sample', [])))


def norm(op, txt):
    body = '\n'.join(l for l in txt.split('\n') if not l.startswith('#loaded-as'))
    if op in ('nk', 'weed', 'delete'):
        return norm_nk(body)
    if op == 'align':
        names, seqs = M.parse_fasta(body)
        return names, sorted(M.columns(seqs))
    return body


def run_rt(desc, ctx, res):
    k, rcmode = desc['k'], desc['rc']
    rng = random.Random(desc['seed'])
    ns = rng.randint(1, 5)
    if desc['size'] == 'big':
        base = G.rseq(rng, rng.randint(6000, 21000))
        samples = []
        for _ in range(ns):
            s = list(base)
            for _ in range(rng.randint(0, 30)):
                s[rng.randrange(len(s))] = rng.choice('ACGTN')
            samples.append([''.join(s)])
    else:
        samples = c07.gen_samples(rng, k, ns) if ns > 1 else [[G.rseq(rng, rng.randint(k, 6 * k))]]
    if any(not M.build(r, k, rcmode) for r in samples):
        res.count('degenerate_sample_skipped')
        return
    files = [G.write_fa(ctx.path('s%d.fa' % i), recs) for i, recs in enumerate(samples)]
    ref = samples[0][0]
    ctx.write('ref.fa', '>chr1\n%s\n>chr2\n%s\n' % (ref, G.rseq(rng, k + 3)))
    src = rng.choice(samples)[0]
    a = rng.randrange(max(1, len(src) - k))
    ctx.write('weed.fa', '>w\n%s\n' % src[a:a + 3 * k])
    ops = [['nk'], ['dist', rng.choice(['0', '0.5', '1'])],
           ['align', rng.choice(c06_filters()), rng.choice(['0', '0.5', '1']), int(rng.random() < 0.5), int(rng.random() < 0.5), int(rng.random() < 0.5)],
           ['map', ctx.path('ref.fa'), int(rng.random() < 0.5), int(rng.random() < 0.5), 'aln'],
           ['map', ctx.path('ref.fa'), 0, int(rng.random() < 0.5), 'vcf'],
           ['weed', ctx.path('weed.fa'), int(rng.random() < 0.5)]]
    if ns > 1:
        dn = rng.sample(range(ns), rng.randint(1, ns - 1))
        ops.append(['delete'] + ['s%d' % i for i in dn])
    H = ctx.bins['harness']
    for op in ops:
        outs = {}
        for route in ('mem', 'disk'):
            p = ctx.sh(H, 'rt', route, k, int(rcmode), ctx.path('rt.skf'), *op, '--', *files, timeout=300)
            outs[route] = p
        name = 'vcf' if op[-1] == 'vcf' else op[0]
        res.evals += 1
        pm, pd = outs['mem'], outs['disk']
        sig = 'C09:rt:%s' % name
        if pm.returncode != 0 or pd.returncode != 0:
            if pm.returncode != 0 and pd.returncode != 0:
                res.count('rt_both_failed:' + name)       # e.g. nothing maps: same refusal on both routes
                continue
            res.violate(sig + ':one-fails', 'k=%d rc=%s %s: in-memory exit %d, reloaded exit %d: %s'
                        % (k, rcmode, op[0], pm.returncode, pd.returncode, (pm.stderr + pd.stderr).strip()[-200:]),
                        {'samples': samples if desc['size'] != 'big' else 'big input from seed', 'op': op})
            continue
        try:
            a_, b_ = norm(op[0], pm.stdout), norm(op[0], pd.stdout)
        except ValueError as e:
            res.violate(sig + ':unparsable', 'k=%d %s output unparsable: %s' % (k, op[0], e), {'op': op})
            continue
        if a_ != b_:
            res.violate(sig, 'k=%d rc=%s %s %s: result on the reloaded file differs from the in-memory result (%s)'
                        % (k, rcmode, op[0], op[1:], pd.stdout.split('\n')[0]),
                        {'samples': samples if desc['size'] != 'big' else 'big input from seed', 'op': op})
            continue
        res.count('rt:' + name)
        if op[0] == 'nk':
            hdr, table, _ = a_
            if hdr['k_bits'] != ('64' if k <= 31 else '128'):
                res.violate('C09:k_bits', 'k=%d: nk reports k_bits=%s' % (k, hdr['k_bits']), None)
            if os.path.getsize(ctx.path('rt.skf')) > 70000:
                res.count('multi_frame_files')
            res.see('rows_order_of_magnitude', len(str(len(table))))
            res.count('rt_rows_compared', len(table))
            if table:
                res.nontrivial.append(fingerprint(['rt', k, rcmode, desc['seed']]))
    if res.sample is None and desc['size'] == 'small':
        res.sample = {'kind': 'round trip', 'k': k, 'rc': rcmode, 'samples': samples, 'operations': [o[0] for o in ops]}


def c06_filters():
    return ['no-filter', 'no-const', 'no-ambig', 'no-ambig-or-const']


def run_cli(desc, ctx, res):
    rng = random.Random(desc['seed'])
    k = 17
    ns = rng.randint(2, 5)
    samples = c07.gen_samples(rng, k, ns)
    if any(not M.build(r, k, True) for r in samples):
        res.count('degenerate_sample_skipped')
        return
    # file names give the sample names: plain, with an interior dot, with a space before the extension (the name then ends in a space)
    fstyle = ['s%d', 's%d', 'GCF_%d.2', 's%d ', ' s%d'][desc['seed'] % 5]
    if fstyle.strip() != fstyle:
        res.count('sample_names_with_white_space_at_an_end')
    files = [G.write_fa(ctx.path((fstyle % i) + '.fa'), recs) for i, recs in enumerate(samples)]
    ctx.write('ref.fa', '>chr1\n%s\n' % samples[0][0])
    p = G.ska_build(ctx, ctx.path('o'), files, k, True)
    if p.returncode != 0:
        raise Inconclusive('build failed ' + p.stderr[-200:])
    args = ['--filter', rng.choice(c06_filters()), '--min-freq', rng.choice(['0', '0.5', '1'])]
    n1, s1, p1 = G.align_output(ctx, files + args)
    n2, s2, p2 = G.align_output(ctx, [ctx.path('o.skf')] + args)
    res.evals += 1
    if n1 is None or n2 is None or n1 != n2 or sorted(M.columns(s1)) != sorted(M.columns(s2)) or n1 != [fstyle % i for i in range(ns)]:
        res.violate('C09:cli:align', 'ska align <fastas> %s differs from ska build + ska align <skf> (names %r / %r, expected %r)'
                    % (args, n1, n2, [fstyle % i for i in range(ns)]), {'samples': samples})
    else:
        res.count('cli:align')
        res.nontrivial.append(fingerprint(['cli', desc['seed']]))
    for fmt in ('aln', 'vcf'):
        m1 = ctx.sh(ctx.ska, 'map', ctx.path('ref.fa'), *files, '-f', fmt)
        m2 = ctx.sh(ctx.ska, 'map', ctx.path('ref.fa'), ctx.path('o.skf'), '-f', fmt)
        res.evals += 1
        if m1.returncode != m2.returncode or m1.stdout != m2.stdout:
            res.violate('C09:cli:map', 'ska map ref <fastas> -f %s differs from ska build + ska map ref <skf> (exit %d/%d)'
                        % (fmt, m1.returncode, m2.returncode), {'samples': samples})
        else:
            res.count('cli:map')


def run_manymerge(desc, ctx, res):
    """Nine and more files in one merge call, forwards and backwards: no input may vanish whatever their number and order."""
    rng = random.Random(desc['seed'])
    k = rng.choice([17, 31, 35])
    n = desc['nfiles']
    base = G.rseq(rng, 4 * k)
    samples = []
    for i in range(n):
        t = list(base)
        for _ in range(rng.randint(0, 2)):
            t[rng.randrange(len(t))] = rng.choice('ACGT')
        samples.append([''.join(t)] + ([G.rseq(rng, k + 3)] if rng.random() < 0.5 else []))
    for i, recs in enumerate(samples):
        G.write_fa(ctx.path('g%d.fa' % i), recs)
        if G.ska_build(ctx, ctx.path('g%d' % i), [ctx.path('g%d.fa' % i)], k, True).returncode != 0:
            raise Inconclusive('build failed')
    for label, order in (('forward', list(range(n))), ('backward', list(range(n - 1, -1, -1)))):
        p = ctx.sh(ctx.ska, 'merge', *[ctx.path('g%d.skf' % i) for i in order], '-o', ctx.path('mm_' + label))
        res.evals += 1
        ok = p.returncode == 0
        if ok:
            try:
                hm, Tm = G.nk(ctx, ctx.path('mm_%s.skf' % label))
                ok = hm.get('names') == ['g%d' % i for i in order] and Tm == M.table_of([samples[i] for i in order], k, True)
            except (G.NkFailed, ValueError):
                ok = False
        if not ok:
            res.violate('C09:manymerge:' + label, 'k=%d: merge of %d files (%s) fails, loses samples or differs from the table of their samples: %s'
                        % (k, n, label, p.stderr.strip()[-120:]), {'samples': samples})
        else:
            res.count('merges_of_9+_files')
    res.nontrivial.append(fingerprint(['manymerge', desc['seed']]))


def run_cli_reads(desc, ctx, res):
    """The same two routes with READ files as inputs (one FASTQ per sample): everything the in-memory route assumes by default
    (k, strands, minimum count, quality rule and threshold) has to be what `ska build` assumes by default."""
    rng = random.Random(desc['seed'])
    k = 17
    ns = rng.randint(2, 4)
    genome = G.rseq(rng, rng.randint(6 * k, 10 * k))
    files = []
    for i in range(ns):
        g = list(genome)
        for _ in range(rng.randint(0, 2)):
            g[rng.randrange(len(g))] = rng.choice('ACGT')
        g = ''.join(g)
        reads = []
        for c_ in range(rng.randint(6, 9)):              # around the default minimum count of 5
            a_ = 0
            while a_ < len(g) - k:
                L_ = rng.randint(2 * k, 4 * k)
                t_ = g[a_:a_ + L_]
                q_ = ''.join(chr(33 + (rng.choice([12, 19, 20, 21]) if rng.random() < 0.03 else 40)) for _x in t_)   # a few below / at / above 20
                reads.append((M.rc(t_), q_[::-1]) if rng.random() < 0.5 else (t_, q_))
                a_ += rng.randint(k, L_)
        files.append(ctx.write('r%d.fastq' % i, ''.join('@r%d\n%s\n+\n%s\n' % (j, t_, q_) for j, (t_, q_) in enumerate(reads))))
    ctx.write('ref.fa', '>chr1\n%s\n' % genome)
    p = ctx.sh(ctx.ska, 'build', '-o', ctx.path('ro'), *files)          # every option at its default
    res.evals += 1
    args = ['--filter', rng.choice(c06_filters()), '--min-freq', rng.choice(['0', '0.5', '1'])]
    n1, s1, p1 = G.align_output(ctx, files + args)
    if p.returncode != 0:
        if n1 is not None:
            res.violate('C09:cli-reads:align', 'ska build (defaults) refuses the read files, ska align on the same files succeeds', {'seed': desc['seed']})
        else:
            res.count('cli-reads:both_refused')
        return
    n2, s2, p2 = G.align_output(ctx, [ctx.path('ro.skf')] + args)
    if n1 is None or n2 is None or n1 != n2 or sorted(M.columns(s1)) != sorted(M.columns(s2)):
        res.violate('C09:cli-reads:align', 'ska align <read files> %s differs from ska build (defaults) + ska align <skf>: %s vs %s columns'
                    % (args, None if s1 is None else len(M.columns(s1)), None if s2 is None else len(M.columns(s2))), {'seed': desc['seed']})
    else:
        res.count('cli-reads:align')
        res.nontrivial.append(fingerprint(['cli-reads', desc['seed']]))
    for fmt in ('aln', 'vcf'):
        m1 = ctx.sh(ctx.ska, 'map', ctx.path('ref.fa'), *files, '-f', fmt)
        m2 = ctx.sh(ctx.ska, 'map', ctx.path('ref.fa'), ctx.path('ro.skf'), '-f', fmt)
        res.evals += 1
        if m1.returncode != m2.returncode or m1.stdout != m2.stdout:
            res.violate('C09:cli-reads:map', 'ska map ref <read files> -f %s differs from ska build (defaults) + ska map ref <skf> (exit %d/%d)'
                        % (fmt, m1.returncode, m2.returncode), {'seed': desc['seed']})
        else:
            res.count('cli-reads:map')


def narrow_arms(rng, k, rcmode, narrow):
    """Arms in stored orientation; narrow = the packed value fits in 64 bits (enough leading A's)."""
    pad = max(0, (k - 1) - 32)
    while True:
        if narrow:
            arms = 'A' * pad + G.rseq(rng, k - 1 - pad)
        else:
            arms = G.rseq(rng, k - 1)
            if pad and arms[:pad] == 'A' * pad:
                continue
        if rcmode and not (M.key(arms) < M.key(M.rc(arms))):
            continue
        return arms


def run_narrow(desc, ctx, res):
    k, rcmode = desc['k'], desc['rc']
    rng = random.Random(desc['seed'])
    ns = rng.randint(2, 5)
    names = ['s%d' % i for i in range(ns)]

    def table(narrow, n):
        rows = {}
        while len(rows) < n:
            a = narrow_arms(rng, k, rcmode, narrow)
            if a not in rows:
                rows[a] = G.random_row(rng, ns, rng.choice(['bases', 'twoallele', 'oneambig', 'nearconst', 'onlyambig', 'allcodes']))
        for s in range(ns):
            if all(r[s] == '-' for r in rows.values()):
                rows[next(iter(rows))][s] = 'C'
        return rows
    rowsN = table(True, rng.randint(2, 25))
    rowsW = table(False, rng.randint(2, 25))
    h = (k - 1) // 2
    for variant in (['rel', 'chk'] if desc.get('chk') else ['rel']):
        b = ctx.bins[variant]
        judged = variant == 'rel'

        def viol(name, what, detail=None):
            res.violate('C09:narrow:%s' % name, 'k=%d rc=%s (%s) %s: %s' % (k, rcmode, variant, name, what),
                        detail or {'rows': rowsN, 'k': k, 'rc': rcmode})

        def chk_overflow(p):
            if variant == 'chk' and p.returncode != 0 and 'overflow' in p.stderr:
                res.count('chk_overflow_panics')
                res.see('chk_overflow_site', p.stderr.split('panicked at ')[-1].split('\n')[0][:80])
                return True
            return False
        fN = G.write_table_samples(ctx, rowsN, k, ns, prefix='s', subdir='n')
        fW = G.write_table_samples(ctx, rowsW, k, ns, prefix='w', subdir='w')
        pN = G.ska_build(ctx, ctx.path('narrow'), fN, k, rcmode, binary=b)
        pW = G.ska_build(ctx, ctx.path('wide'), fW, k, rcmode, binary=b)
        if pN.returncode != 0 or pW.returncode != 0:
            raise Inconclusive('table build failed: ' + (pN.stderr + pW.stderr)[-200:])
        fits = all(sum(M.ORD[c] << (2 * (len(a) - 1 - i)) for i, c in enumerate(a)) < (1 << 64) for a in rowsN)
        if judged and fits:
            res.count('narrow_files_fit_64_bits')
        if variant == 'chk':
            res.count('chk_runs')
        # nk
        p = ctx.sh(b, 'nk', '--full-info', ctx.path('narrow.skf'))
        if not chk_overflow(p):
            res.evals += judged
            try:
                hdr, T = M.parse_nk(p.stdout) if p.returncode == 0 else ({}, None)
            except ValueError:
                hdr, T = {}, None
            if T != rowsN or hdr.get('k_bits') != '128' or hdr.get('names') != names:
                viol('nk', 'read-out differs from the table built (k_bits=%s, rows %s/%d)' % (hdr.get('k_bits'), None if T is None else len(T), len(rowsN)))
            elif judged:
                res.count('narrow:nk')
                res.nontrivial.append(fingerprint(['narrow', k, rcmode, desc['seed']]))
        # align
        filt, mf = rng.choice(c06_filters()), rng.choice(['0', '0.5', '1'])
        n_, s_, p = G.align_output(ctx, [ctx.path('narrow.skf'), '--filter', filt, '--min-freq', mf], binary=b)
        if not chk_overflow(p):
            res.evals += judged
            exp = sorted(''.join(v) for v in M.t_filter(rowsN, filt, M.ceil_thr(mf, ns), False, False, False).values())
            if n_ is None or sorted(M.columns(s_)) != exp or n_ != names:
                viol('align', 'columns differ from the model (%s %s)' % (filt, mf))
            elif judged:
                res.count('narrow:align')
        # distance (on the unambiguous part of the statement only when the table is unambiguous)
        if not any(M.is_ambig(x) for r in rowsN.values() for x in r):
            p = ctx.sh(b, 'distance', ctx.path('narrow.skf'))
            if not chk_overflow(p):
                res.evals += judged
                ok = p.returncode == 0
                if ok:
                    exp, _d = c14.exp_dist(rowsN, ns, names, '0')
                    ok = not c14.compare(c14.parse_dist(p.stdout), exp)
                if not ok:
                    viol('distance', 'distances differ from the model')
                elif judged:
                    res.count('narrow:distance')
        # map: reference made of the narrow k-mers' windows (forward strand) separated by N
        refseq = 'N'.join(a[:h] + rng.choice('ACGT') + a[h:] for a in list(rowsN)[:8])
        ctx.write('ref.fa', '>r\n%s\n' % refseq)
        am, rm = rng.random() < 0.5, rng.random() < 0.5
        flags = (['--ambig-mask'] if am else []) + (['--repeat-mask'] if rm else [])
        p = ctx.sh(b, 'map', ctx.path('ref.fa'), ctx.path('narrow.skf'), *flags)
        if not chk_overflow(p):
            res.evals += judged
            exp, matched, _ = c04.expected_map([refseq], rowsN, ns, k, rcmode, am, rm)
            ok = p.returncode == 0 and M.parse_fasta(p.stdout) == (names, exp)
            if not ok:
                viol('map', 'mapped alignment differs from the model: exit %d %s' % (p.returncode, p.stderr.strip()[-120:]))
            elif judged:
                res.count('narrow:map')
        # weed with a subset of the narrow k-mers
        wk = rng.sample(list(rowsN), max(1, len(rowsN) // 3))
        G.write_fa(ctx.path('weed.fa'), [(a[:h] + 'A' + a[h:]) if rng.random() < 0.5 or not rcmode else M.rc(a[:h] + 'A' + a[h:]) for a in wk])
        rev = rng.random() < 0.5
        # a random subset of the filter flags rides along (each is a separate positional bool in the dispatch code)
        wf = {'fam': rng.random() < 0.3, 'mask': rng.random() < 0.3, 'nogap': rng.random() < 0.3,
              'filt': rng.choice(['no-filter', 'no-filter', 'no-const', 'no-ambig', 'no-ambig-or-const'])}
        wflags = (['--filter-ambig-as-missing'] if wf['fam'] else []) + (['--ambig-mask'] if wf['mask'] else []) + \
            (['--no-gap-only-sites'] if wf['nogap'] else []) + ['--filter', wf['filt']]
        p = ctx.sh(b, 'weed', ctx.path('narrow.skf'), ctx.path('weed.fa'), '--min-freq', '0', '-o', ctx.path('weeded.skf'),
                   *(['--reverse'] if rev else []), *wflags)
        if not chk_overflow(p):
            res.evals += judged
            ok = p.returncode == 0
            if ok:
                try:
                    hw, Tw = G.nk(ctx, ctx.path('weeded.skf'), binary=b)
                    expw = M.t_weed(rowsN, set(wk), rev)
                    if wf['filt'] != 'no-filter' or wf['mask'] or wf['nogap']:
                        expw = M.t_filter(expw, wf['filt'], 0, wf['fam'], wf['mask'], wf['nogap'])
                    ok = Tw == expw and hw.get('k_bits') == '128'
                except (G.NkFailed, ValueError):
                    ok = False
            if not ok:
                viol('weed', 'weeded file differs from the model (reverse=%s flags=%s): %s' % (rev, wflags, p.stderr.strip()[-120:]))
            elif judged:
                res.count('narrow:weed')
                # the file the weed saved is used again: a delete on it equals the delete on its content, whatever else the
                # weed (with its count-changing flags) left in the file
                keepcols = [i for i in range(ns) if any(r[i] != '-' for r in expw.values())]
                if expw and len(keepcols) >= 2:
                    dn2 = sorted(rng.sample(range(ns), rng.randint(1, ns - 1)))
                    p2 = ctx.sh(b, 'delete', '-s', ctx.path('weeded.skf'), '-o', ctx.path('weeded_deleted'), *[names[i] for i in dn2])
                    res.evals += 1
                    try:
                        hd2, Td2 = G.nk(ctx, ctx.path('weeded_deleted.skf'), binary=b) if p2.returncode == 0 else (None, None)
                    except (G.NkFailed, ValueError):
                        hd2, Td2 = None, None
                    want2 = M.t_delete(expw, set(dn2))
                    if p2.returncode == 0 and want2 and Td2 != want2:
                        d2_ = [(x, (Td2 or {}).get(x), want2.get(x)) for x in set(Td2 or {}) | set(want2) if (Td2 or {}).get(x) != want2.get(x)]
                        viol('weed-then-delete', 'delete %s on the file saved by weed %s differs from the delete on its content: %s' % (dn2, wflags, d2_[:3]))
                    elif p2.returncode == 0:
                        res.count('narrow:weed-then-delete')
        # reverse weed with a weed file that shares no k-mer with the table: nothing is kept
        for _try in range(50):
            wnone = G.rseq(rng, k)
            if not (set(M.build([wnone], k, rcmode)) & set(rowsN)):
                break
        G.write_fa(ctx.path('wnone.fa'), [wnone])
        p = ctx.sh(b, 'weed', ctx.path('narrow.skf'), ctx.path('wnone.fa'), '--min-freq', '0', '--reverse', '-o', ctx.path('wnone.skf'))
        if not chk_overflow(p):
            res.evals += judged
            try:
                hn_, Tn_ = G.nk(ctx, ctx.path('wnone.skf'), binary=b) if p.returncode == 0 else (None, None)
            except (G.NkFailed, ValueError):
                Tn_ = None
            if Tn_ != {}:
                viol('reverse-weed-nothing', 'reverse weed with a weed file sharing no k-mer with the table keeps %s rows: %s' % (None if Tn_ is None else len(Tn_), p.stderr.strip()[-100:]))
            elif judged:
                res.count('narrow:reverse-weed-nothing')
        # delete
        dn = sorted(rng.sample(range(ns), rng.randint(1, ns - 1)))
        delname = 'deleted' if desc['seed'] % 2 else 'kept.2024-06'          # output prefixes with and without dots
        p = ctx.sh(b, 'delete', '-s', ctx.path('narrow.skf'), '-o', ctx.path(delname), *[names[i] for i in dn])
        if not chk_overflow(p):
            res.evals += judged
            ok = p.returncode == 0
            if ok:
                try:
                    hd, Td = G.nk(ctx, ctx.path(delname + '.skf'), binary=b)
                    ok = Td == M.t_delete(rowsN, set(dn)) and hd.get('k_bits') == '128'
                except (G.NkFailed, ValueError):
                    ok = False
            if not ok:
                viol('delete', 'file after delete differs from the model: %s' % p.stderr.strip()[-120:])
            elif judged:
                res.count('narrow:delete')
        # merge in both argument orders
        for order, label in (((('narrow', rowsN, fN), ('wide', rowsW, fW)), 'merge-first'), ((('wide', rowsW, fW), ('narrow', rowsN, fN)), 'merge-second')):
            # the merged file under a plain prefix, under a prefix with dots, or written over a copy of one of its own inputs
            mode_ = ['plain', 'dotted', 'onto-first-input', 'onto-second-input'][(desc['seed'] + len(label)) % 4]
            in0, in1 = ctx.path(order[0][0] + '.skf'), ctx.path(order[1][0] + '.skf')
            out = ctx.path({'plain': 'm_' + label, 'dotted': 'coll.v1.' + label}.get(mode_, 'grow_' + label))
            if mode_.startswith('onto'):
                shutil.copy(in0 if mode_ == 'onto-first-input' else in1, out + '.skf')
                if mode_ == 'onto-first-input':
                    in0 = out + '.skf'
                else:
                    in1 = out + '.skf'
            if judged:
                res.count('narrow-merge-output:' + mode_)
            p = ctx.sh(b, 'merge', in0, in1, '-o', out)
            if chk_overflow(p):
                continue
            res.evals += judged
            ok = p.returncode == 0
            if ok:
                try:
                    hm, Tm = G.nk(ctx, out + '.skf', binary=b)
                    ok = Tm == M.t_merge(order[0][1], ns, order[1][1], ns) and hm.get('k_bits') == '128'
                except (G.NkFailed, ValueError):
                    ok = False
            if not ok:
                viol(label, 'merge of a file whose k-mers fit in 64 bits with an ordinary file (%s given first) fails or differs: %s'
                     % (order[0][0], p.stderr.strip()[-160:]), {'narrow': rowsN, 'wide': rowsW})
            elif judged:
                res.count('narrow:' + label)
    if res.sample is None:
        res.sample = {'kind': 'narrow file', 'k': k, 'rc': rcmode, 'arms_fitting_64_bits': list(rowsN)[:3], 'ordinary_arms': list(rowsW)[:2]}


def run_miri(desc, ctx, res):
    """One build -> save -> load -> read-out under the undefined-behaviour interpreter, compared with the native run."""
    import subprocess
    from .. import build
    k = desc['k']
    rng = random.Random(desc['seed'])
    base = G.rseq(rng, k + 10)
    other = base[:k // 2] + ('A' if base[k // 2] != 'A' else 'C') + base[k // 2 + 1:]
    G.write_fa(ctx.path('m.fa'), [base])
    G.write_fa(ctx.path('m2.fa'), [other])
    ctx.write('mref.fa', '>r\n%s\n' % base)
    opargs = {'nk': ['nk'], 'align': ['align', 'no-const', '0', '0', '0', '0'], 'dist': ['dist', '0'],
              'weed': ['weed', ctx.path('m2.fa'), '0'], 'delete': ['delete', 's1'],
              'map': ['map', ctx.path('mref.fa'), '0', '1', 'aln']}[desc.get('op', 'nk')]
    args = ['rt', 'disk', str(k), '1', ctx.path('m.skf')] + opargs + ['--', ctx.path('m.fa'), ctx.path('m2.fa')]
    cmd, env, cwd = build.miri_cmd(args, tree_borrows=desc.get('op') in ('map', 'dist'))
    try:
        p = subprocess.run(cmd, cwd=cwd, env=env, capture_output=True, text=True, timeout=1500)
    except subprocess.TimeoutExpired:
        raise Inconclusive('miri timed out')
    if 'Undefined Behavior' in p.stderr:
        res.violate('C09:miri', 'Miri reports undefined behaviour in build/save/load at k=%d: %s' % (k, p.stderr[-300:]), p.stderr[-3000:])
        return
    if p.returncode != 0:
        raise Inconclusive('miri run failed: ' + p.stderr[-300:])
    q = ctx.sh(ctx.bins['harness'], *args)
    res.evals += 1
    op = desc.get('op', 'nk')
    op = 'nk' if op in ('weed', 'delete') else op
    if q.returncode != 0 or norm(op, p.stdout) != norm(op, q.stdout):
        res.violate('C09:miri-differs', 'k=%d: round trip under Miri differs from the native run' % k, {'miri': p.stdout[:2000], 'native': q.stdout[:2000]})
    else:
        res.count('miri_round_trips')
        res.count('miri_op:' + desc.get('op', 'nk'))
        res.nontrivial.append(fingerprint(['miri', k, desc.get('op'), desc['seed']]))


def run_empty(desc, ctx, res):
    """A file whose table is empty after filtering (samples, no k-mers) must persist and merge like any other."""
    k, rcmode = desc['k'], desc['rc']
    rng = random.Random(desc['seed'])
    nsE, nsO = rng.randint(1, 3), rng.randint(1, 3)
    h = (k - 1) // 2
    recsE = [[G.rseq(rng, rng.randint(k, 2 * k))] for _ in range(nsE)]
    other = c07.gen_samples(rng, k, nsO) if nsO > 1 else [[G.rseq(rng, rng.randint(k, 4 * k))]]
    if any(not M.build(r, k, rcmode) for r in recsE + other):
        res.count('degenerate_sample_skipped')
        return
    fE = [G.write_fa(ctx.path('e%d.fa' % i), r) for i, r in enumerate(recsE)]
    fO = [G.write_fa(ctx.path('o%d.fa' % i), r) for i, r in enumerate(other)]
    b = ctx.ska
    if G.ska_build(ctx, ctx.path('empty'), fE, k, rcmode).returncode != 0 or G.ska_build(ctx, ctx.path('other'), fO, k, rcmode).returncode != 0:
        raise Inconclusive('build failed')
    how = rng.choice(['weed', 'filter'])
    if how == 'weed':
        G.write_fa(ctx.path('all.fa'), [r for s_ in recsE for r in s_])
        p = ctx.sh(b, 'weed', ctx.path('empty.skf'), ctx.path('all.fa'), '--min-freq', '0')
    else:
        p = ctx.sh(b, 'weed', ctx.path('empty.skf'), '--filter', 'no-ambig-or-const', '--min-freq', '0', *(['--no-gap-only-sites'] if nsE > 1 else []))
        if nsE > 1 and len({tuple(r) for r in recsE}) > 1:
            # different samples: the filter may keep rows; force emptiness by weeding as well
            G.write_fa(ctx.path('all.fa'), [r for s_ in recsE for r in s_])
            p = ctx.sh(b, 'weed', ctx.path('empty.skf'), ctx.path('all.fa'), '--min-freq', '0')
    namesE = ['e%d' % i for i in range(nsE)]
    namesO = ['o%d' % i for i in range(nsO)]
    TO = M.table_of(other, k, rcmode)

    def viol(name, what):
        res.violate('C09:empty:%s' % name, 'k=%d rc=%s empty-table file (%s): %s' % (k, rcmode, how, what), {'samples': recsE, 'other': other})
    try:
        hdr, T = G.nk(ctx, ctx.path('empty.skf'))
    except (G.NkFailed, ValueError) as e:
        viol('nk', 'cannot be read back: %s' % e)
        return
    res.evals += 1
    if p.returncode != 0 or T != {} or hdr.get('names') != namesE or hdr.get('k') != str(k) or hdr.get('k_bits') != ('64' if k <= 31 else '128'):
        viol('nk', 'read-out %s rows, names %s, k_bits %s' % (len(T), hdr.get('names'), hdr.get('k_bits')))
        return
    res.count('empty:nk')
    for order, label in ((('empty', 'other'), 'merge-first'), (('other', 'empty'), 'merge-second'), (('other', 'empty', 'other2'), 'merge-middle')):
        if label == 'merge-middle':
            G.write_fa(ctx.path('x.fa'), [G.rseq(rng, 2 * k)])
            ctx.write('x.tsv', 'x0\t%s\n' % ctx.path('x.fa'))
            G.ska_build(ctx, ctx.path('other2'), ['-f', ctx.path('x.tsv')], k, rcmode)
            Tx = M.table_of([[open(ctx.path('x.fa')).read().split('\n')[1]]], k, rcmode)
        pm = ctx.sh(b, 'merge', *[ctx.path(o + '.skf') for o in order], '-o', ctx.path('m_' + label))
        res.evals += 1
        ok = pm.returncode == 0
        if ok:
            try:
                hm, Tm = G.nk(ctx, ctx.path('m_%s.skf' % label))
                if label == 'merge-first':
                    expT, expN = M.t_merge({}, nsE, TO, nsO), namesE + namesO
                elif label == 'merge-second':
                    expT, expN = M.t_merge(TO, nsO, {}, nsE), namesO + namesE
                else:
                    expT, expN = M.t_merge(M.t_merge(TO, nsO, {}, nsE), nsO + nsE, Tx, 1), namesO + namesE + ['x0']
                ok = Tm == expT and hm.get('names') == expN
            except (G.NkFailed, ValueError):
                ok = False
        if not ok:
            viol(label, 'merge %s fails or loses samples/rows: %s' % ('+'.join(order), pm.stderr.strip()[-150:]))
        else:
            res.count('empty:' + label)
    res.nontrivial.append(fingerprint(['empty', k, rcmode, desc['seed']]))


def run_case(desc, ctx):
    res = Result()
    res.see('k', desc.get('k', 17))
    if desc['kind'] == 'empty':
        run_empty(desc, ctx, res)
        return res
    if desc['kind'] == 'miri':
        run_miri(desc, ctx, res)
        return res
    if desc['kind'] == 'rt':
        run_rt(desc, ctx, res)
    elif desc['kind'] == 'cli':
        run_cli(desc, ctx, res)
    elif desc['kind'] == 'cli-reads':
        run_cli_reads(desc, ctx, res)
    elif desc['kind'] == 'manymerge':
        run_manymerge(desc, ctx, res)
    else:
        run_narrow(desc, ctx, res)
    return res
