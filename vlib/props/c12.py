"""C12 - Read filtering keeps exactly the k-mers seen min-count times at passing quality."""
import os
import random
import re

from .. import gen as G
from .. import model as M
from ..run import Result, fingerprint, Inconclusive

ID = 'C12'
LEVEL = 'exploration'
BUDGET = {'quick': 200, 'thorough': 2400}
CHUNK = 1
RULE = ('Cases: paired FASTQ read sets over a 2k..6k-base genome (read lengths from exactly k, both orientations, '
        'substitution errors, N), quality characters forced to Q-1/Q/Q+1 around --min-qual (also at the middle position), and '
        'probe k-mers planted exactly C-1, C and C+1 times split across the two files and across strands; min-count 1..6, '
        'min-qual in {0,1,2,10,20,30,40}, three quality rules, all odd k, both strand modes.  Oracle 1: the (arms, code) set of '
        '`ska build -f list --min-count C --min-qual Q --qual-filter R` against an exact counter over canonical full k-mers of '
        'passing windows.  Oracle 2 (event-log monitor, hooks): the sequence of hashes presented to the real counting filter '
        'equals the model sequence of passing windows in read order (Python ntHash); no Bloom false negative; counts '
        'increase by one per Bloom hit; a k-mer is accepted exactly when the count reaches C (C=2: from the second sighting '
        'on).  An extra dictionary entry is excused only by an observed Bloom false positive or an observed 64-bit hash '
        'collision; a missing entry never.  Builds of 2..20 read-pair samples with --threads 1..8 are compared column by column with the per-sample model.  --min-count auto (k in 15..63, both widths; two samples whose four read files hold the same reads, so that it does not matter which two files the program fits its model on) must use the cutoff `ska cov` reports for those reads, print the same table and obey the counting rule at that count.  A sixth of the cases also build with one file named in both columns (every window counted twice).  Three to five read builds with different k, count, quality threshold and rule inside one process (library route, harness) are each compared with the model.  In the thorough tier one deep sample (about 9.2 million k-mers each seen exactly three times, all of them at count two at the same time after two passes) is built with --min-count 3 and the number of stored k-mers must equal the number that reach the count.  Fault injection on the input: a read file with one malformed record (quality string of another length, missing + line) or a gzip stream cut in its middle is either refused (non-zero exit, no .skf) or loses no k-mer that reaches the count among the well-formed records.  Non-trivial: some k-mer is below and some at/above the count, or a quality '
        'equals the threshold; distinct = distinct (parameters, reads).')
ASSUMPTIONS = ['the exact counter in this file states the specification; quality = ASCII - 33',
               'hooked runs use --threads 1 so that the event order is the read order']
REQUIRED = {t: ['rule:none', 'rule:middle', 'rule:strict', 'quality_equal_threshold', 'probes_at_C', 'probes_below_C',
                'probes_above_C', 'filter_calls_monitored', 'accepts_monitored', 'mincount:1', 'mincount:2', 'mincount:3+',
                'kmers_included', 'kmers_excluded_by_count'] for t in ('quick', 'thorough')}
REQUIRED['quick'] = REQUIRED['quick'] + ['large_input_distinct_kmers', 'multi_sample_builds', 'multi_sample_parallel_builds', 'damaged_input_refused', 'auto_mincount_builds', 'auto_width64', 'auto_width128', 'same_file_in_both_columns', 'builds_with_default_options', 'inprocess_read_builds_compared', 'huge_gz_inputs']
REQUIRED['thorough'] = REQUIRED['quick'] + ['deep_inputs']
RULES = {'none': 'no-filter', 'middle': 'middle', 'strict': 'strict'}


def builds(tier):
    return ['rel', 'chk', 'harness']


def plan(tier, seed, rng, scale):
    descs = []
    for k in G.ALL_K:
        for rule in RULES:
            descs.append({'k': k, 'rc': rng.random() < 0.7, 'rule': rule, 'minc': rng.randint(1, 6),
                          'minq': rng.choice([0, 1, 2, 10, 20, 30, 40]), 'seed': rng.getrandbits(32)})
    n = int((2500 if tier == 'quick' else 25000) * scale)
    for i in range(n):
        descs.append({'k': rng.choice(G.ALL_K), 'rc': rng.random() < 0.7, 'rule': rng.choice(list(RULES)),
                      'minc': rng.randint(1, 6), 'minq': rng.choice([0, 1, 2, 10, 20, 30, 40]), 'seed': rng.getrandbits(32)})
    # inputs with >= 10^5 distinct k-mers for the collision-rate clause (one medium one in quick, three big ones in thorough)
    for i in range(1 if tier == 'quick' else 4):
        descs.append({'k': rng.choice([21, 31, 33]), 'rc': True, 'rule': 'none', 'minc': rng.choice([2, 3]), 'minq': 0,
                      'seed': rng.getrandbits(32), 'large': 250000})
    for i, d in enumerate(descs):
        d['chk'] = (i % 8 == 0) and not d.get('large')
    for i in range(int((60 if tier == 'quick' else 600) * scale)):
        descs.append({'k': rng.choice([9, 15, 21, 31, 33]), 'rc': rng.random() < 0.7, 'rule': rng.choice(list(RULES)),
                      'minc': rng.randint(1, 4), 'minq': rng.choice([0, 2, 20]), 'seed': rng.getrandbits(32),
                      'damage': ['length-mismatch', 'missing-plus', 'cut-gzip'][i % 3], 'chk': False})
    for i in range(int((60 if tier == 'quick' else 600) * scale)):
        descs.append({'k': 0, 'rc': True, 'rule': 'none', 'minc': 0, 'minq': 0, 'seed': rng.getrandbits(32), 'inprocess': True, 'chk': False})
    for i, (nr, gz) in enumerate([(38000, True)] if tier == 'quick' else [(38000, True), (60000, True), (38000, False)]):
        # millions of distinct k-mers in one sample, gzip-compressed: the counting filter at the scale the 0.1% clause is about
        descs.insert(5 + i, {'k': 31, 'rc': True, 'rule': 'none', 'minc': 2, 'minq': 0, 'seed': rng.getrandbits(32), 'nreads': nr, 'gz': gz, 'chk': False})
    if tier != 'quick':
        # more than 2^23 distinct k-mers of one sample at the same count at the same time, every one reaching the count exactly
        descs.insert(8, {'k': 31, 'rc': True, 'rule': 'none', 'minc': 3, 'minq': 0, 'seed': rng.getrandbits(32), 'deep': 9500000, 'chk': False})
    for i in range(int((16 if tier == 'quick' else 160) * scale)):
        descs.append({'k': [15, 21, 31, 33, 41, 63][i % 6], 'rc': rng.random() < 0.7, 'rule': 'strict', 'minc': 0, 'minq': 20,
                      'seed': rng.getrandbits(32), 'auto': True, 'chk': False})
    for i in range(int((40 if tier == 'quick' else 400) * scale)):
        descs.append({'k': rng.choice([9, 15, 21, 31, 33]), 'rc': rng.random() < 0.7, 'rule': rng.choice(list(RULES)),
                      'minc': rng.randint(1, 5), 'minq': rng.choice([0, 2, 20]), 'seed': rng.getrandbits(32),
                      'multi': rng.choice([2, 10, 11, 12, 20]), 'threads': rng.choice([1, 2, 4, 8]), 'chk': False})
    return descs


def passing_windows(reads, k, rcmode, minq, rule):
    """Canonical full k-mers of windows that pass the quality rule, in read order."""
    h = (k - 1) // 2
    out = []
    for seq, qual in reads:
        seq = seq.upper()
        q = [ord(c) - 33 for c in qual]
        for i in range(len(seq) - k + 1):
            w = seq[i:i + k]
            if 'N' in w:
                continue
            if rule == 'strict' and min(q[i:i + k]) < minq:
                continue
            if rule == 'middle' and q[i + h] < minq:
                continue
            if rcmode:
                r = M.rc(w)
                out.append(w if M.key(w) <= M.key(r) else r)
            else:
                out.append(w)
    return out


def dictionary(counts, k, rcmode, minc):
    d = {}
    for w, c in counts.items():
        if c >= minc:
            sk, m, _f, pal = M.canon_split(w, rcmode)
            s = d.setdefault(sk, set())
            s.add(m)
            if pal:
                s.add(M.COMP[m])
    return {sk: M.code_of(v) for sk, v in d.items()}


def gen_reads(rng, desc):
    k, minc, minq = desc['k'], desc['minc'], desc['minq']
    h = (k - 1) // 2
    large = desc.get('large')
    Glen = large if large else rng.randint(2 * k, 6 * k)
    genome = G.rseq(rng, Glen)
    reads = [[], []]
    cov = 2 if large else rng.randint(2, 12)
    RL = 100 if large else None
    nreads = max(2, cov * Glen // (RL or 2 * k))

    def quality(L, middle_positions=()):
        if large:
            return 'I' * L
        pool = [minq, minq, max(0, minq - 1), min(41, minq + 1), rng.randint(0, 41), 41, 41]
        q = [rng.choice(pool) for _ in range(L)]
        return ''.join(chr(33 + x) for x in q)

    for r in range(nreads):
        L = RL or rng.randint(k, min(Glen, 3 * k))
        a = rng.randrange(Glen - L + 1)
        s = list(genome[a:a + L])
        for j in range(L):
            if rng.random() < (0.01 if large else 0.02):
                s[j] = rng.choice('ACGTN') if not large else rng.choice('ACGT')
        s = ''.join(s)
        if rng.random() < 0.5:
            s = M.rc_n(s)
        if rng.random() < 0.1 and not large:
            s = s.lower()
        reads[r % 2].append((s, quality(L)))
    probes = []
    if not large:
        # probe k-mers planted exactly m times, split over files and strands; all qualities high
        for m in sorted({max(1, minc - 1), minc, minc + 1}):
            w = G.rseq(rng, k)
            if rng.random() < 0.3:
                arm = G.rseq(rng, h)
                w = arm + rng.choice('ACGT') + M.rc(arm)        # self-complementary arms
            for j in range(m):
                v = w if (not desc['rc'] or rng.random() < 0.5) else M.rc(w)
                reads[rng.randrange(2)].append((v, chr(33 + 41) * k))
            probes.append((w, m))
        for j in (0, 1):
            rng.shuffle(reads[j])
            if not reads[j]:
                reads[j].append((G.rseq(rng, k), 'I' * k))
    return reads, probes


def fastq_text(reads):
    return ''.join('@r%d\n%s\n+\n%s\n' % (i, s, q) for i, (s, q) in enumerate(reads))


def parse_log(path):
    ev = []
    if not os.path.exists(path):
        return ev
    for l in open(path):
        f = l.rstrip('\n').split('\t')
        ev.append(f)
    return ev


def monitor(res, ev, seq_model, minc, sig, detail):
    """Online-style checker over the recorded filter history.  Returns the set of hashes with a Bloom false positive."""
    calls = []          # (hash, hit, count or None, accepted)
    cur = None
    accepts_plain = []
    for f in ev:
        if f[0] == 'B':
            if cur:
                calls.append(cur)
            cur = [int(f[1]), f[2] == '1', None, False]
        elif f[0] == 'N' and cur and int(f[1]) == cur[0]:
            cur[2] = int(f[2])
        elif f[0] == 'A':
            if cur and int(f[1]) == cur[0] and not cur[3]:
                cur[3] = True
            else:
                accepts_plain.append(int(f[1]))
        elif f[0] == 'F':
            if cur:
                calls.append(cur)
            cur = None
    if cur:
        calls.append(cur)
    fp = set()
    if minc <= 1:
        # no counting: every passing window must be accepted, in order
        if calls:
            res.violate(sig + ':monitor:unexpected-bloom', 'min-count %d but the Bloom filter was consulted' % minc, detail)
        if accepts_plain != seq_model:
            res.violate(sig + ':monitor:accept-sequence',
                        'accepted windows differ from the passing windows of the model (%d vs %d)' % (len(accepts_plain), len(seq_model)), detail)
        res.count('accepts_monitored', len(accepts_plain))
        return fp
    got_seq = [c[0] for c in calls]
    if got_seq != seq_model:
        i = next((j for j, (a, b) in enumerate(zip(got_seq, seq_model)) if a != b), min(len(got_seq), len(seq_model)))
        res.violate(sig + ':monitor:call-sequence',
                    'the counting filter saw %d windows, the model has %d passing windows; first difference at call %d'
                    % (len(got_seq), len(seq_model), i), detail)
        return fp
    seen = {}
    hits = {}
    for (hsh, hit, cnt, acc) in calls:
        n = seen.get(hsh, 0) + 1
        seen[hsh] = n
        if hit:
            hits[hsh] = hits.get(hsh, 0) + 1
        if n == 1 and hit:
            fp.add(hsh)
            res.count('bloom_false_positives')
        if n >= 2 and not hit:
            res.violate(sig + ':monitor:bloom-false-negative', 'sighting %d of hash %d not found in the Bloom filter' % (n, hsh), detail)
        if minc == 2:
            if cnt is not None:
                res.violate(sig + ':monitor:count-event', 'count table used with min-count 2', detail)
            want_acc = hit
        else:
            want_cnt = (hits.get(hsh, 0) + 1) if hit else None
            if cnt != want_cnt:
                res.violate(sig + ':monitor:count', 'hash %d sighting %d: count %s, expected %s' % (hsh, n, cnt, want_cnt), detail)
            want_acc = hit and cnt == minc
        if acc != want_acc:
            res.violate(sig + ':monitor:threshold', 'hash %d sighting %d (count %s, min-count %d): accepted=%s' % (hsh, n, cnt, minc, acc), detail)
        if acc:
            res.count('accepts_monitored')
            # exactly at the threshold in terms of real sightings, unless a false positive shifted the count by one
            real_n_ok = (n >= 2) if minc == 2 else (n == minc)
            if not real_n_ok and hsh not in fp:
                res.violate(sig + ':monitor:early-accept', 'hash %d accepted at sighting %d with min-count %d' % (hsh, n, minc), detail)
    res.count('filter_calls_monitored', len(calls))
    return fp


def run_damaged(desc, ctx, res):
    """A read file with one malformed record (or a cut gzip stream) in its middle.  The build either refuses (non-zero exit,
    no .skf) or loses no k-mer that reaches the count among the well-formed records: ending the counting silently at the
    damage is data loss."""
    import gzip
    k, rcmode, rule, minc, minq = desc['k'], desc['rc'], desc['rule'], desc['minc'], desc['minq']
    rng = random.Random(desc['seed'])
    reads, probes = gen_reads(rng, desc)
    which = rng.randrange(2)
    kind = desc['damage']
    # probes that sit behind the damage: minc copies of one k-mer, all in the damaged file after the bad record
    w = G.rseq(rng, k)
    tail = [(w if (not rcmode or rng.random() < 0.5) else M.rc(w), chr(33 + 41) * k) for _ in range(minc)]
    head = reads[which]
    pos = rng.randint(1, len(head))
    good = head[:pos] + tail + head[pos:]
    bad_idx = pos - 1                       # the record just before the probes
    if kind in ('length-mismatch', 'missing-plus'):
        recs = [[('@r%d' % i), s_, '+', q_] for i, (s_, q_) in enumerate(good)]
        if kind == 'length-mismatch':
            recs[bad_idx][3] = recs[bad_idx][3][:-1] if len(recs[bad_idx][3]) > 1 else recs[bad_idx][3] + 'I'
        else:
            recs[bad_idx][2] = ''
        data = ''.join('\n'.join(r) + '\n' for r in recs).encode()
        wellformed = good[:bad_idx] + good[bad_idx + 1:]
        name = 'd%d.fastq' % which
    else:
        raw = gzip.compress(fastq_text(good).encode())
        data = raw[:max(20, len(raw) * rng.randint(30, 80) // 100)]
        wellformed = None                      # nothing can be said about what was readable: only a refusal is acceptable
        name = 'd%d.fastq.gz' % which
    ctx.write(name, data)
    other = 'o%d.fastq' % (1 - which)
    ctx.write(other, fastq_text(reads[1 - which]))
    pair = [ctx.path(name), ctx.path(other)] if which == 0 else [ctx.path(other), ctx.path(name)]
    ctx.write('dlist', 'D\t%s\t%s\n' % tuple(pair))
    if os.path.exists(ctx.path('dmg.skf')):
        os.remove(ctx.path('dmg.skf'))
    p = G.ska_build(ctx, ctx.path('dmg'), ['-f', ctx.path('dlist'), '--min-count', minc, '--min-qual', minq, '--qual-filter', RULES[rule]], k, rcmode)
    res.evals += 1
    detail = {'k': k, 'rc': rcmode, 'rule': rule, 'min_count': minc, 'min_qual': minq, 'damage': kind, 'seed': desc['seed']}
    written = os.path.exists(ctx.path('dmg.skf'))
    if p.returncode != 0:
        if written:
            res.violate('C12:damaged:%s:artefact' % kind, 'build refused a damaged read file (exit %d) but left an .skf behind' % p.returncode, detail)
        else:
            res.count('damaged_input_refused')
            res.nontrivial.append(fingerprint(['damaged', desc['seed']]))
        return
    if wellformed is None:
        res.violate('C12:damaged:%s:accepted' % kind, 'k=%d min-count=%d: a read file cut in the middle of its gzip stream was accepted with exit 0' % (k, minc), detail)
        return
    pw = passing_windows(wellformed + reads[1 - which], k, rcmode, minq, rule)
    counts = {}
    for x in pw:
        counts[x] = counts.get(x, 0) + 1
    exp = dictionary(counts, k, rcmode, minc)
    hdr, T = G.nk(ctx, ctx.path('dmg.skf'))
    lost = [a for a in exp if a not in T]
    if lost:
        res.violate('C12:damaged:%s:lost' % kind, 'k=%d min-count=%d rule=%s: a read file with one malformed record (%s) was accepted with exit 0 and %d of %d '
                    'k-mers that reach the count among the well-formed records are missing, e.g. %s' % (k, minc, rule, kind, len(lost), len(exp), lost[:2]), detail)
    else:
        res.count('damaged_input_accepted_without_loss')
        res.nontrivial.append(fingerprint(['damaged', desc['seed']]))


def run_auto(desc, ctx, res):
    """--min-count auto: the count is the cutoff that `ska cov` reports for the same two files, k and strand mode; the build then
    obeys the counting rule at that count (and prints the same coverage table)."""
    import re
    from . import c20
    k, rcmode = desc['k'], desc['rc']
    rng = random.Random(desc['seed'])
    reads, params = c20.sim_reads(rng)
    # the program fits the coverage model on two of the read files it is given (the first file of the first two paired
    # samples); here all four files of two samples hold the same reads, so whichever two are taken, `ska cov X X` is the
    # reference for the count
    allr = reads[0] + reads[1]
    txt = ''.join('@r%d\n%s\n+\n%s\n' % (i, s_, 'I' * len(s_)) for i, s_ in enumerate(allr))
    for nm in ('a0', 'a1', 'b0', 'b1'):
        ctx.write(nm + '.fastq', txt)
    ctx.write('alist', 'A\t%s\t%s\nB\t%s\t%s\n' % tuple(ctx.path(nm + '.fastq') for nm in ('a0', 'a1', 'b0', 'b1')))
    c = ctx.sh(ctx.ska, 'cov', ctx.path('a0.fastq'), ctx.path('b0.fastq'), '-k', k, *G.strand_flag(rcmode), timeout=600)
    p = G.ska_build(ctx, ctx.path('auto'), ['-f', ctx.path('alist'), '--min-count', 'auto'], k, rcmode)
    res.evals += 1
    detail = dict(params, k=k, rc=rcmode, seed=desc['seed'], note='reads are regenerated from the seed by c20.sim_reads()')
    if c.returncode != 0 or p.returncode != 0:
        if (c.returncode != 0) != (p.returncode != 0):
            res.violate('C12:auto:one-fails', 'k=%d rc=%s: ska cov exit %d, ska build --min-count auto exit %d on the same reads: %s'
                        % (k, rcmode, c.returncode, p.returncode, (c.stderr + p.stderr).strip()[-200:]), detail)
        else:
            res.count('auto_fit_failed_in_both')
        return
    m = re.search(r'Estimated cutoff\t(\d+)', c.stderr)
    if not m:
        raise Inconclusive('no cutoff line from ska cov')
    cutoff = int(m.group(1))
    ctab = [l for l in c.stdout.split('\n') if l and l[0].isdigit()]
    btab = [l for l in p.stdout.split('\n') if l and l[0].isdigit()]
    if ctab != btab:
        d = [(x, y) for x, y in zip(ctab, btab) if x != y][:2]
        res.violate('C12:auto:table', 'k=%d rc=%s: the coverage table printed by build --min-count auto (%d rows) differs from ska cov (%d rows) on the same reads, e.g. %s'
                    % (k, rcmode, len(btab), len(ctab), d), detail)
        return
    allreads = [(s_, 'I' * len(s_)) for s_ in allr]
    pw = passing_windows(allreads, k, rcmode, 20, 'strict')
    counts = {}
    for w in pw:
        counts[w] = counts.get(w, 0) + 2                       # each sample holds the reads twice
    exp = dictionary(counts, k, rcmode, max(1, cutoff))
    hdr, T = G.nk(ctx, ctx.path('auto.skf'))
    lost = [a for a in exp if a not in T]
    other = [a for a in T if T[a] != [exp.get(a)] * 2]
    if lost or len(other) > max(1, len(counts) // 1000):
        res.violate('C12:auto:dictionary', 'k=%d rc=%s cutoff %d: %d k-mers that reach the count are missing, %d entries differ from the counting model (%d expected)'
                    % (k, rcmode, cutoff, len(lost), len(other), len(exp)), detail)
        return
    res.count('auto_mincount_builds')
    res.see('auto_cutoffs', cutoff)
    res.count('auto_width64' if k <= 31 else 'auto_width128')
    res.nontrivial.append(fingerprint(['auto', desc['seed']]))


def run_inprocess(desc, ctx, res):
    """Several read builds inside ONE process (library route through the harness), each with its own k, count, quality threshold and
    rule: whatever a build computes once and keeps (a table derived from --min-qual, a hash seed cache, a filter) must not leak
    into the next."""
    rng = random.Random(desc['seed'])
    jobs, lines = [], []
    for n in range(rng.randint(3, 5)):
        d2 = {'k': rng.choice([9, 15, 21, 31, 33]), 'rc': rng.random() < 0.7, 'rule': rng.choice(list(RULES)), 'minc': rng.randint(1, 4),
              'minq': rng.choice([0, 10, 20, 30]), 'seed': rng.getrandbits(32)}
        reads, _probes = gen_reads(random.Random(d2['seed']), d2)
        f0 = ctx.write('ip%d_0.fastq' % n, fastq_text(reads[0]))
        f1 = ctx.write('ip%d_1.fastq' % n, fastq_text(reads[1]))
        counts = {}
        for w in passing_windows(reads[0] + reads[1], d2['k'], d2['rc'], d2['minq'], d2['rule']):
            counts[w] = counts.get(w, 0) + 1
        exp = dictionary(counts, d2['k'], d2['rc'], d2['minc'])
        if not exp:
            continue
        jobs.append((d2, exp, len(counts)))
        lines.append('%d %d %s %s %d %d %s' % (d2['k'], d2['rc'], f0, f1, d2['minc'], d2['minq'], {'none': 'none', 'middle': 'middle', 'strict': 'strict'}[d2['rule']]))
    if len(jobs) < 2:
        return
    ctx.write('multiq.txt', '\n'.join(lines) + '\n')
    p = ctx.sh(ctx.bins['harness'], 'multik', ctx.path('multiq.txt'))
    parts = p.stdout.split('== ')[1:]
    for n, (d2, exp, ndistinct) in enumerate(jobs):
        res.evals += 1
        try:
            hdr, table = M.parse_nk(parts[n].split('\n', 1)[1])
            got = {a: b[0] for a, b in table.items()}
        except (ValueError, IndexError):
            got = None
        lost = None if got is None else [a for a in exp if a not in got]
        other = None if got is None else [a for a in got if got[a] != exp.get(a)]
        if got is None or lost or len(other) > max(1, ndistinct // 1000):
            res.violate('C12:inprocess', 'read build number %d of one process (k=%d min-count=%d min-qual=%d rule=%s, after %s): %s k-mers that reach the count are missing, %s entries differ%s'
                        % (n + 1, d2['k'], d2['minc'], d2['minq'], d2['rule'], [(j[0]['minq'], j[0]['rule']) for j in jobs[:n]],
                           None if lost is None else len(lost), None if other is None else len(other), '' if p.returncode == 0 else ': ' + p.stderr.strip()[-120:]),
                        {'jobs': [j[0] for j in jobs]})
            return
        res.count('inprocess_read_builds_compared')
    res.nontrivial.append(fingerprint(['inprocess', desc['seed']]))


def run_hugegz(desc, ctx, res):
    """Millions of distinct k-mers seen once (random reads), gzip-compressed or not, plus one long read present once in each file:
    with --min-count 2 the long read's k-mers are all kept and fewer than 0.1% of the distinct k-mers slip in beside them."""
    import gzip
    k, rcmode = desc['k'], True
    rng = random.Random(desc['seed'])
    nreads, RL = desc['nreads'], 150
    raw = os.urandom(nreads * RL)
    seqtxt = raw.translate(bytes((b'ACGT'[i & 3]) for i in range(256))).decode()
    planted = G.rseq(rng, 2000)
    for j in (0, 1):
        lines = []
        half = range(j, nreads, 2)
        for i in half:
            lines.append('@r%d\n%s\n+\n%s\n' % (i, seqtxt[i * RL:(i + 1) * RL], 'I' * RL))
        lines.insert(rng.randrange(len(lines) + 1), '@planted\n%s\n+\n%s\n' % (planted if j == 0 else M.rc(planted), 'I' * len(planted)))
        data = ''.join(lines).encode()
        if desc['gz']:
            with gzip.open(ctx.path('h%d.fastq.gz' % j), 'wb', compresslevel=1) as fh:
                fh.write(data)
        else:
            ctx.write('h%d.fastq' % j, data)
    ext = '.fastq.gz' if desc['gz'] else '.fastq'
    ctx.write('hlist', 'H\t%s\t%s\n' % (ctx.path('h0' + ext), ctx.path('h1' + ext)))
    p = G.ska_build(ctx, ctx.path('huge'), ['-f', ctx.path('hlist'), '--min-count', 2, '--qual-filter', 'no-filter'], k, rcmode)
    res.evals += 1
    detail = {'k': k, 'reads': nreads, 'gz': desc['gz'], 'seed': desc['seed']}
    if p.returncode != 0:
        raise Inconclusive('huge build failed: ' + p.stderr[-200:])
    hdr, T = G.nk(ctx, ctx.path('huge.skf'))
    exp = set(M.build([planted], k, rcmode))
    lost = [a for a in exp if a not in T]
    extra = [a for a in T if a not in exp]
    distinct = nreads * (RL - k + 1)
    res.count('huge_input_distinct_kmers', distinct)
    res.count('huge_input_extras', len(extra))
    if lost:
        res.violate('C12:huge:lost', 'k=%d: %d of %d k-mers present in both files are missing (%d random reads, gz=%s)' % (k, len(lost), len(exp), nreads, desc['gz']), detail)
    elif len(extra) * 1000 >= distinct:
        res.violate('C12:huge:collision-rate', 'k=%d: %d k-mers seen once were included among about %d distinct ones (>= 0.1%%; %d random reads, gz=%s)'
                    % (k, len(extra), distinct, nreads, desc['gz']), detail)
    else:
        res.count('huge_gz_inputs' if desc['gz'] else 'huge_plain_inputs')
        res.nontrivial.append(fingerprint(['huge', desc['seed']]))


def run_deep(desc, ctx, res):
    """A deep sample: a random sequence of desc['deep'] bases cut into 1 kb reads, written twice into the first file and once,
    reverse-complemented, into the second, so that every one of about 9.2 million k-mers is seen exactly three times and, after
    the first two passes, all of them stand at count two at the same time.  With --min-count 3 every one reaches the count and
    must be in the file (`ska nk` header); nothing else can be.  Up to five coincidences between random split k-mers are
    tolerated in the count (expected number about 4e-5)."""
    k, L, n = desc['k'], 1000, desc['deep']
    raw = os.urandom(n)
    g = raw.translate(bytes((b'ACGT'[i & 3]) for i in range(256))).decode()
    q = 'I' * L
    nreads = 0
    with open(ctx.path('d0.fastq'), 'w') as f0, open(ctx.path('d1.fastq'), 'w') as f1:
        for rep in range(2):
            for i in range(0, n - L + 1, L):
                f0.write('@f%d_%d\n%s\n+\n%s\n' % (rep, i, g[i:i + L], q))
        for i in range(0, n - L + 1, L):
            f1.write('@r%d\n%s\n+\n%s\n' % (i, M.rc(g[i:i + L]), q))
            nreads += 1
    del g, raw
    ctx.write('dlist', 'D\t%s\t%s\n' % (ctx.path('d0.fastq'), ctx.path('d1.fastq')))
    p = G.ska_build(ctx, ctx.path('deep'), ['-f', ctx.path('dlist'), '--min-count', desc['minc'], '--min-qual', 0, '--qual-filter', 'no-filter'], k, True)
    res.evals += 1
    detail = {'k': k, 'bases': n, 'seed': desc['seed'], 'note': 'random content; any sequence of this shape shows the same'}
    for f in ('d0.fastq', 'd1.fastq'):
        try:
            os.unlink(ctx.path(f))
        except OSError:
            pass
    if p.returncode != 0:
        raise Inconclusive('deep build failed: ' + p.stderr[-200:])
    q = ctx.sh(ctx.ska, 'nk', ctx.path('deep.skf'))
    m = re.search(r'^k-mers=(\d+)$', q.stdout, re.M)
    if q.returncode != 0 or not m:
        raise Inconclusive('nk on the deep build failed: ' + q.stderr[-200:])
    got, exp = int(m.group(1)), nreads * (L - k + 1)
    res.count('deep_input_kmers_at_the_count', exp)
    try:
        os.unlink(ctx.path('deep.skf'))
    except OSError:
        pass
    if got < exp - 5 or got > exp:
        res.violate('C12:deep:lost' if got < exp else 'C12:deep:extra',
                    'k=%d --min-count %d: %d k-mers each seen exactly %d times (two passes in the first file, one reverse-complemented in the second), the file holds %d'
                    % (k, desc['minc'], exp, desc['minc'], got), detail)
    else:
        res.count('deep_inputs')
        res.nontrivial.append(fingerprint(['deep', desc['seed']]))


def run_multi(desc, ctx, res):
    """Several read-pair samples in one build (parallel for >= 10 samples and > 1 thread): every column must equal the
    dictionary of its own reads; samples share most of their k-mers, so state leaking from one sample's filter into the
    next one's would show."""
    k, rcmode, rule, minc, minq = desc['k'], desc['rc'], desc['rule'], desc['minc'], desc['minq']
    rng = random.Random(desc['seed'])
    ns = desc['multi']
    base = G.rseq(rng, rng.randint(2 * k, 4 * k))
    lines = []
    expected = []
    for s_ in range(ns):
        d2 = dict(desc, seed=rng.getrandbits(32))
        genome = list(base)
        for _ in range(rng.randint(0, 2)):
            genome[rng.randrange(len(genome))] = rng.choice('ACGT')
        genome = ''.join(genome)
        reads = [[], []]
        for r in range(rng.randint(6, 14)):
            L = rng.randint(k, len(genome))
            a = rng.randrange(len(genome) - L + 1)
            t = genome[a:a + L]
            if rng.random() < 0.5:
                t = M.rc(t)
            q = ''.join(chr(33 + rng.choice([minq, max(0, minq - 1), 41, 41, 41])) for _ in range(L))
            reads[r % 2].append((t, q))
        for j in (0, 1):
            if not reads[j]:
                reads[j].append((genome[:k], chr(33 + 41) * k))
            ctx.write('m%d_%d.fastq' % (s_, j), fastq_text(reads[j]))
        lines.append('m%d\t%s\t%s\n' % (s_, ctx.path('m%d_0.fastq' % s_), ctx.path('m%d_1.fastq' % s_)))
        pw = passing_windows(reads[0] + reads[1], k, rcmode, minq, rule)
        counts = {}
        for w in pw:
            counts[w] = counts.get(w, 0) + 1
        expected.append(dictionary(counts, k, rcmode, minc))
    ctx.write('mlist', ''.join(lines))
    res.count('multi_sample_builds')
    if ns >= 10 and desc['threads'] > 1:
        res.count('multi_sample_parallel_builds')
    res.evals += 1
    p = G.ska_build(ctx, ctx.path('mo'), ['-f', ctx.path('mlist'), '--min-count', minc, '--min-qual', minq, '--qual-filter', RULES[rule],
                                          '--threads', desc['threads']], k, rcmode)
    detail = {'k': k, 'rc': rcmode, 'rule': rule, 'min_count': minc, 'min_qual': minq, 'samples': ns, 'threads': desc['threads'], 'seed': desc['seed']}
    if any(not e for e in expected):
        if p.returncode == 0:
            res.violate('C12:multi:accepted-empty', 'build succeeded although a sample has no qualifying k-mer', detail)
        else:
            res.count('nothing_qualifies_refused')
        return
    if p.returncode != 0:
        res.violate('C12:multi:build-failed', 'multi-sample FASTQ build failed: %s' % p.stderr.strip()[-200:], detail)
        return
    hdr, T = G.nk(ctx, ctx.path('mo.skf'))
    keys = set()
    for e in expected:
        keys.update(e)
    model = {a: [e.get(a, '-') for e in expected] for a in keys}
    if T != model or hdr.get('names') != ['m%d' % i for i in range(ns)]:
        d = [(x, T.get(x), model.get(x)) for x in set(T) | set(model) if T.get(x) != model.get(x)]
        res.violate('C12:multi:%s' % rule, 'k=%d min-count=%d rule=%s %d samples --threads %d: table differs from the per-sample counting model, e.g. %s'
                    % (k, minc, rule, ns, desc['threads'], d[:3]), detail)
        return
    res.nontrivial.append(fingerprint(['multi', desc['seed']]))


def run_case(desc, ctx):
    res = Result()
    if desc.get('multi'):
        run_multi(desc, ctx, res)
        return res
    if desc.get('damage'):
        run_damaged(desc, ctx, res)
        return res
    if desc.get('auto'):
        run_auto(desc, ctx, res)
        return res
    if desc.get('inprocess'):
        run_inprocess(desc, ctx, res)
        return res
    if desc.get('nreads'):
        run_hugegz(desc, ctx, res)
        return res
    if desc.get('deep'):
        run_deep(desc, ctx, res)
        return res
    k, rcmode, rule, minc, minq = desc['k'], desc['rc'], desc['rule'], desc['minc'], desc['minq']
    rng = random.Random(desc['seed'])
    reads, probes = gen_reads(rng, desc)
    ctx.write('r0.fastq', fastq_text(reads[0]))
    ctx.write('r1.fastq', fastq_text(reads[1]))
    ctx.write('list', 'S\t%s\t%s\n' % (ctx.path('r0.fastq'), ctx.path('r1.fastq')))
    allreads = reads[0] + reads[1]
    pw = passing_windows(allreads, k, rcmode, minq, rule)
    counts = {}
    for w in pw:
        counts[w] = counts.get(w, 0) + 1
    exp = dictionary(counts, k, rcmode, minc)
    res.count('rule:' + rule)
    res.count('mincount:%s' % (minc if minc < 3 else '3+'))
    res.see('k_rc', '%d/%s' % (k, 'rc' if rcmode else 'ss'))
    res.see('minq', minq)
    detail = {'k': k, 'rc': rcmode, 'rule': rule, 'min_count': minc, 'min_qual': minq,
              'reads': reads if not desc.get('large') else 'large input, regenerate from seed'}
    args = ['-f', ctx.path('list'), '--min-count', minc, '--min-qual', minq, '--qual-filter', RULES[rule]]
    sig = 'C12:%s' % rule
    for variant in (['rel', 'chk'] if desc.get('chk') else ['rel']):
        b = ctx.bins[variant]
        log = ctx.path('events.log')
        if os.path.exists(log):
            os.remove(log)
        hooked = variant == 'rel'
        p = G.ska_build(ctx, ctx.path('o_' + variant), args, k, rcmode, binary=b, env={'SKA_VERIF_LOG': log} if hooked else None)
        if variant == 'chk':
            res.count('chk_runs')
            if p.returncode != 0 and 'overflow' in p.stderr:
                res.count('chk_overflow_panics')
                res.see('chk_overflow_site', p.stderr.split('panicked at ')[-1].split('\n')[0][:80])
                continue
        else:
            res.evals += 1
        if p.returncode != 0:
            if exp:
                res.violate(sig + ':build-failed', 'k=%d rc=%s min-count=%d min-qual=%d rule=%s: build failed but %d k-mers qualify: %s'
                            % (k, rcmode, minc, minq, rule, len(exp), p.stderr.strip()[-200:]), detail)
            else:
                res.count('nothing_qualifies_refused')
            continue
        hdr, T = G.nk(ctx, ctx.path('o_%s.skf' % variant), binary=b)
        T = G.one_col(T)
        fp = set()
        if hooked:
            seq_model = [M.nthash(w, rcmode) for w in pw]
            fp = monitor(res, parse_log(log), seq_model, minc, sig, detail)
        # hash collisions between different k-mers, visible to the oracle
        by_hash = {}
        if T != exp:
            for w in counts:
                by_hash.setdefault(M.nthash(w, rcmode), []).append(w)
        missing = [x for x in exp if x not in T]
        weaker = [x for x in exp if x in T and not M.CODE_SET[exp[x]] <= M.CODE_SET[T[x]]]
        extra = []
        for x in T:
            want = M.CODE_SET[exp[x]] if x in exp else frozenset()
            for m in M.CODE_SET[T[x]] - want:
                extra.append((x, m))
        if missing or weaker:
            res.violate(sig + ':missing', 'k=%d rc=%s min-count=%d min-qual=%d rule=%s (%s): %d k-mers that reach the count are missing, e.g. %s'
                        % (k, rcmode, minc, minq, rule, variant, len(missing) + len(weaker), (missing + weaker)[:3]), detail)
        unexplained = []
        h = (k - 1) // 2
        for (arms, m) in extra:
            # full k-mers that would produce this entry
            cands = [arms[:h] + m + arms[h:]]
            if rcmode:
                cands.append(M.rc(cands[0]))
                if arms == M.rc(arms):
                    cands.append(arms[:h] + M.COMP[m] + arms[h:])
            ok = False
            for w in cands:
                hv = M.nthash(w, rcmode)
                if hv in fp or len(by_hash.get(hv, [])) > 1:
                    ok = True
            if ok:
                res.count('extras_explained_by_observed_collision')
            else:
                unexplained.append((arms, m))
        if unexplained:
            res.violate(sig + ':extra', 'k=%d rc=%s min-count=%d min-qual=%d rule=%s (%s): %d entries below the count without any observed collision, e.g. %s'
                        % (k, rcmode, minc, minq, rule, variant, len(unexplained), unexplained[:3]), detail)
        if variant == 'rel':
            res.count('kmers_included', len(exp))
            res.count('distinct_kmers_total', len(counts))
            res.count('kmers_excluded_by_count', sum(1 for c in counts.values() if c < minc))
            if rule != 'none' and any((ord(c) - 33) == minq for _s, q in allreads for c in q):
                res.count('quality_equal_threshold')
            for w, m in probes:
                res.count('probes_at_C' if m == minc else ('probes_below_C' if m < minc else 'probes_above_C'))
            if desc.get('large'):
                res.count('large_input_distinct_kmers', len(counts))
                res.count('large_input_extras', len(extra))
                if len(extra) * 1000 >= len(counts):
                    res.violate(sig + ':collision-rate', '%d extra entries among %d distinct k-mers (>= 0.1%%)' % (len(extra), len(counts)), detail)
            if exp and any(c < minc for c in counts.values()):
                res.nontrivial.append(fingerprint([k, rcmode, rule, minc, minq, desc['seed']]))
    if not desc.get('large') and desc['seed'] % 6 == 4 and k == 17 or (not desc.get('large') and desc['seed'] % 24 == 5):
        # no counting option at all: the documented defaults apply (k 17 unless given, --min-count 5, --min-qual 20, strict rule)
        kd = 17
        argsd = ['build', '-o', ctx.path('dflt'), '-f', ctx.path('list')]
        pd_ = ctx.sh(ctx.ska, *argsd)
        res.evals += 1
        cd = {}
        for w in passing_windows(allreads, kd, True, 20, 'strict'):
            cd[w] = cd.get(w, 0) + 1
        expd = dictionary(cd, kd, True, 5)
        if pd_.returncode != 0:
            if expd:
                res.violate('C12:defaults-failed', 'build with default options fails although %d k-mers qualify under the documented defaults: %s' % (len(expd), pd_.stderr.strip()[-150:]), detail)
            else:
                res.count('defaults_nothing_qualifies')
        else:
            _hd, Td = G.nk(ctx, ctx.path('dflt.skf'))
            lostd = [a for a in expd if a not in Td]
            otherd = [a for a in Td if Td[a] != [expd.get(a)]]
            if lostd or len(otherd) > max(1, len(cd) // 1000) or _hd.get('k') != '17':
                res.violate('C12:defaults', 'build with default options (k=%s): %d k-mers that qualify under the documented defaults (k 17, min-count 5, min-qual 20, strict) are missing, %d entries differ'
                            % (_hd.get('k'), len(lostd), len(otherd)), detail)
            else:
                res.count('builds_with_default_options')
    if not desc.get('large') and desc['seed'] % 6 == 3:
        # the same file named in both columns of the list: every window is then seen twice ("across both files")
        ctx.write('list2', 'S\t%s\t%s\n' % (ctx.path('r0.fastq'), ctx.path('r0.fastq')))
        p2 = G.ska_build(ctx, ctx.path('same'), ['-f', ctx.path('list2'), '--min-count', minc, '--min-qual', minq, '--qual-filter', RULES[rule]], k, rcmode)
        res.evals += 1
        c2 = {}
        for w in passing_windows(reads[0], k, rcmode, minq, rule):
            c2[w] = c2.get(w, 0) + 2
        exp2 = dictionary(c2, k, rcmode, minc)
        if p2.returncode != 0:
            if exp2:
                res.violate(sig + ':same-file-failed', 'k=%d min-count=%d: build with one file named in both columns fails although %d k-mers reach the count: %s'
                            % (k, minc, len(exp2), p2.stderr.strip()[-160:]), detail)
        else:
            _h2, T2 = G.nk(ctx, ctx.path('same.skf'))
            lost2 = [a for a in exp2 if a not in T2]
            other2 = [a for a in T2 if T2[a] != [exp2.get(a)]]
            if lost2 or len(other2) > max(1, len(c2) // 1000):
                res.violate(sig + ':same-file', 'k=%d rc=%s min-count=%d rule=%s: one file named in both columns: %d k-mers that reach the count (each window counted twice) are missing, %d entries differ'
                            % (k, rcmode, minc, rule, len(lost2), len(other2)), detail)
            else:
                res.count('same_file_in_both_columns')
    if res.sample is None and not desc.get('large'):
        res.sample = {'k': k, 'rc': rcmode, 'rule': rule, 'min_count': minc, 'min_qual': minq, 'reads_file1': len(reads[0]),
                      'reads_file2': len(reads[1]), 'first_read': reads[0][0], 'passing_windows': len(pw), 'qualifying_kmers': len(exp)}
    return res


def finalize(tier, counters, sets):
    """Population statistic of the run: Bloom false positives (observed through the hook) per distinct k-mer."""
    total = counters.get('distinct_kmers_total', 0)
    fp = counters.get('bloom_false_positives', 0)
    if total >= 100000 and fp * 1000 >= total:
        return [{'signature': 'C12:collision-rate', 'what': '%d Bloom false positives among %d distinct k-mers of this run (>= 0.1%%)' % (fp, total),
                 'detail': None}], []
    return [], []


def coverage_extra(tier, counters, sets):
    total = counters.get('distinct_kmers_total', 0)
    return {'bloom_false_positive_rate': (counters.get('bloom_false_positives', 0) / total) if total else None}
