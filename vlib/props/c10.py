"""C10 - Results depend only on the logical content of an .skf, not on its history."""
import os
import random
import shutil

from .. import gen as G
from .. import model as M
from ..run import Result, fingerprint, Inconclusive
from . import c14

ID = 'C10'
LEVEL = 'exploration'
BUDGET = {'quick': 240, 'thorough': 2400}
CHUNK = 1
RULE = ('Cases: histories of 1..8 operations over {merge on either side, delete (names on the command line or in a names file, also with blank lines), weed, reverse weed (also with a weed file that shares no k-mer with the table, and on the history file under a name not ending in .skf), an operation that is refused or fails (weed file without k-mers or missing, unknown or all names, merge with another k onto the file itself, unwritable output) and must leave the content as it was, filter-only weed with every '
        'site filter / threshold / --filter-ambig-as-missing / --ambig-mask / --no-gap-only-sites, plain reload} applied with the '
        'real ska to a starting table rich in ambiguity codes; forced templates (count-changing filter then a threshold align '
        'without that flag; mask then count; delete then filter; merge after filter; weed to empty then merge).  After every '
        'step the read-out (names, table, per-sample counts) is compared with the model table obtained by applying the documented '
        'effect of the operation, and the stored object is decoded through the harness (k-mer integers, rows, equal lengths of the parallel containers) against the same table.  At the end 16 align settings, distance, map, nk and a further weed/delete are run on the history '
        'file and on a fresh file with the same content (built through ska build, or written through the public library API when '
        'a sample has lost all its k-mers) and must agree (model-free).  Thresholds use (f, n) with f*n integral.  Non-trivial: '
        'the history has >= 2 steps that change the table; distinct = distinct (start table, history).')
ASSUMPTIONS = ['weed rounds its frequency threshold down, align up (DESIGN.md section 8): only (f, n) with integral f*n are used',
               'the fresh file is produced from the model table, so the final comparison is history file vs content-only file']
TEMPLATES = ['famfilter_then_align', 'mask_then_count', 'delete_then_filter', 'merge_after_filter', 'weed_empty_then_merge']
REQUIRED = {t: ['template:' + x for x in TEMPLATES] + ['op:merge', 'op:delete', 'op:weed', 'op:rweed', 'op:filter', 'op:reload',
                                                        'final_align_compared', 'final_distance_compared', 'final_map_compared',
                                                        'final_weed_compared', 'final_delete_compared', 'fresh_via_build', 'fresh_via_library', 'stored_objects_checked', 'op:refused', 'weeds_on_a_file_not_named_skf']
            for t in ('quick', 'thorough')}
FILTERS = ['no-filter', 'no-const', 'no-ambig', 'no-ambig-or-const']


def builds(tier):
    return ['rel', 'chk', 'harness']


def plan(tier, seed, rng, scale):
    descs = []
    for t in TEMPLATES:
        for k in (9, 31, 33):
            descs.append({'template': t, 'k': k, 'seed': rng.getrandbits(32)})
    n = int((600 if tier == 'quick' else 10000) * scale)
    for i in range(n):
        descs.append({'template': rng.choice(TEMPLATES) if i % 4 == 0 else None,
                      'k': rng.choice([5, 9, 15, 31, 33, 41]) if rng.random() < 0.8 else rng.choice(G.ALL_K),
                      'seed': rng.getrandbits(32)})
    for i, d in enumerate(descs):
        d['chk'] = i % 6 == 0
    return descs


def freq_choices(n):
    """min-freq strings f with f*n integral."""
    out = ['0', '1']
    if n % 2 == 0:
        out.append('0.5')
    if n % 4 == 0:
        out += ['0.25', '0.75']
    if n % 5 == 0:
        out += ['0.2', '0.4', '0.6', '0.8']
    return out


class OK:
    """Stand-in for a finished process whose exit status is not what is being judged."""
    def __init__(self, stderr='', real=0):
        self.returncode, self.stderr, self.real = 0, stderr, real


class History:
    def __init__(self, ctx, binary, k, rng, res):
        self.ctx, self.b, self.k, self.rng, self.res = ctx, binary, k, rng, res
        self.h = (k - 1) // 2
        self.cur = ctx.path('cur.skf')
        self.extra = 0
        self.steps = []
        self.changed = 0

    def start(self, ns, nrows):
        self.names = ['s%d' % i for i in range(ns)]
        self.T = G.make_table(self.rng, self.k, ns, nrows, styles=('bases', 'allcodes', 'allcodes', 'oneambig', 'twoallele', 'nearconst'))
        for s in range(ns):
            if all(r[s] == '-' for r in self.T.values()):
                self.T[next(iter(self.T))][s] = 'A'
        fns = G.write_table_samples(self.ctx, self.T, self.k, ns)
        p = G.ska_build(self.ctx, self.ctx.path('cur'), fns, self.k, True, binary=self.b)
        if p.returncode != 0:
            raise Inconclusive('start build failed: ' + p.stderr[-200:])

    def run(self, *args):
        p = self.ctx.sh(self.b, *args)
        return p

    def op_merge(self, first=None, shared=3):
        rng = self.rng
        n_ = len(self.names)
        r2 = G.make_table(rng, self.k, 1, rng.randint(1, 10), styles=('bases', 'allcodes'))
        for kk in rng.sample(list(self.T), min(len(self.T), shared)):
            r2[kk] = [rng.choice('ACGTRN')]
        nm = 'x%d' % self.extra
        self.extra += 1
        recs = G.table_records(r2, self.k, 0)
        G.write_fa(self.ctx.path(nm + '.fa'), recs)
        p = G.ska_build(self.ctx, self.ctx.path(nm), [self.ctx.path(nm + '.fa')], self.k, True, binary=self.b)
        if p.returncode != 0:
            raise Inconclusive('merge partner build failed')
        if first is None:
            first = rng.random() < 0.5
        args = [self.ctx.path(nm + '.skf'), self.cur] if first else [self.cur, self.ctx.path(nm + '.skf')]
        p = self.run('merge', *args, '-o', self.ctx.path('mrg'))
        if p.returncode == 0:
            shutil.move(self.ctx.path('mrg.skf'), self.cur)
        if first:
            self.T = M.t_merge(r2, 1, self.T, n_)
            self.names = [nm] + self.names
        else:
            self.T = M.t_merge(self.T, n_, r2, 1)
            self.names = self.names + [nm]
        self.changed += 1
        return p, 'merge(%s %s)' % (nm, 'first' if first else 'last')

    def op_delete(self, dn=None):
        n_ = len(self.names)
        if n_ < 2:
            return None, None
        if dn is None:
            dn = self.rng.sample(range(n_), self.rng.randint(1, n_ - 1))
        route = self.rng.choice(['cli', 'cli', 'file', 'file-blank-lines'])
        dnames = [self.names[i] for i in dn]
        if route == 'cli':
            p = self.run('delete', '-s', self.cur, *dnames)
        else:
            lines = list(dnames)
            if route == 'file-blank-lines':
                lines.insert(self.rng.randint(1, len(lines)), self.rng.choice(['', '  ']))
            self.ctx.write('del_names.txt', '\n'.join(lines) + '\n')
            p = self.run('delete', '-s', self.cur, '-f', self.ctx.path('del_names.txt'))
            if route == 'file-blank-lines' and p.returncode != 0:
                # whether blank lines are tolerated is not stated; a refusal must then be without effect
                return OK(p.stderr), 'refused(delete, names file with a blank line)'
        self.T = M.t_delete(self.T, set(dn))
        self.names = [x for i, x in enumerate(self.names) if i not in dn]
        self.changed += 1
        return p, 'delete(%s%s)' % (sorted(dn), '' if route == 'cli' else ' via ' + route)

    def op_refused(self):
        """An operation that is refused or fails: whatever its exit status, the content of the file is what it was."""
        rng = self.rng
        what = rng.choice(['weed-short', 'weed-missing', 'delete-unknown', 'delete-all', 'merge-other-k', 'weed-unwritable'])
        if what == 'weed-short':
            G.write_fa(self.ctx.path('bad.fa'), [G.rseq(rng, rng.randint(1, self.k - 1)) for _ in range(2)])
            p = self.run('weed', self.cur, self.ctx.path('bad.fa'), '--min-freq', '0')
        elif what == 'weed-missing':
            p = self.run('weed', self.cur, self.ctx.path('no_such_weed_file.fa'), '--min-freq', '0')
        elif what == 'delete-unknown':
            p = self.run('delete', '-s', self.cur, self.names[0], 'no_such_sample')
        elif what == 'delete-all':
            p = self.run('delete', '-s', self.cur, *self.names)
        elif what == 'weed-unwritable':
            if not self.T:
                return None, None
            w = next(iter(self.T))
            G.write_fa(self.ctx.path('wu.fa'), [w[:self.h] + 'A' + w[self.h:] + 'N'])
            p = self.run('weed', self.cur, self.ctx.path('wu.fa'), '--min-freq', '0', '-o', self.ctx.path('no_such_dir/x.skf'))
        else:
            k2 = self.k + 2 if self.k < 63 else self.k - 2
            G.write_fa(self.ctx.path('otherk.fa'), [G.rseq(rng, 3 * k2)])
            G.ska_build(self.ctx, self.ctx.path('otherk'), [self.ctx.path('otherk.fa')], k2, True, binary=self.b)
            # the output name is the history file itself: a refused merge must not have replaced it
            p = self.run('merge', self.cur, self.ctx.path('otherk.skf'), '-o', self.cur[:-4])
        return OK(p.stderr, p.returncode), 'refused(%s)' % what

    def op_weed(self, reverse, ws=None, nothing=False):
        rng = self.rng
        if not self.T:
            return None, None
        if nothing:
            # a weed file that shares no k-mer with the table: forward it removes nothing, with --reverse everything
            for _ in range(1000):
                w = G.rseq(rng, self.k)
                if not (set(M.build([w], self.k, True)) & set(self.T)):
                    break
            else:
                return None, None
            ws, recs = [], [w]
        else:
            if ws is None:
                ws = rng.sample(list(self.T), rng.randint(1, max(1, len(self.T) // 3)))
            recs = []
            for arms in ws:
                s = arms[:self.h] + rng.choice('ACGT') + arms[self.h:]
                if rng.random() < 0.5:
                    s = M.rc(s)
                recs.append(s + 'N')
        if len(recs) >= 2 and rng.random() < 0.4:
            # a record without any k-mer (shorter than k, or riddled with N) between records that have some
            recs.insert(rng.randint(1, len(recs) - 1), rng.choice([G.rseq(rng, rng.randint(1, self.k - 1)), 'N' * (self.k + 3), 'ACGTN' * self.k]))
        G.write_fa(self.ctx.path('w.fa'), recs)
        literal = rng.random() < 0.3
        target = self.cur
        if literal:
            # weed works on literal file names: the history file under a name that does not end in .skf, weeded in place
            target = self.ctx.path('cur.v1')
            shutil.copy(self.cur, target)
            for stale in ('cur.v1.skf',):
                if os.path.exists(self.ctx.path(stale)):
                    os.remove(self.ctx.path(stale))
        p = self.run('weed', target, self.ctx.path('w.fa'), '--min-freq', '0', *(['--reverse'] if reverse else []))
        if literal:
            shutil.copy(target, self.cur)
            self.res.count('weeds_on_a_file_not_named_skf')
        self.T = M.t_weed(self.T, set(ws), reverse)
        self.changed += 1
        return p, '%sweed(%s%s)' % ('reverse ' if reverse else '', 'no k-mer of the file' if nothing else '%d k-mers' % len(ws), ', file cur.v1' if literal else '')

    def op_filter(self, filt=None, mf=None, fam=None, mask=None, nogap=None):
        rng = self.rng
        n_ = len(self.names)
        filt = filt if filt is not None else rng.choice(FILTERS)
        mf = mf if mf is not None else rng.choice(freq_choices(n_))
        fam = fam if fam is not None else rng.random() < 0.5
        mask = mask if mask is not None else rng.random() < 0.3
        nogap = nogap if nogap is not None else rng.random() < 0.3
        thr = M.floor_thr(mf, n_)
        p = self.run('weed', self.cur, '--filter', filt, '--min-freq', mf, *(['--filter-ambig-as-missing'] if fam else []),
                     *(['--ambig-mask'] if mask else []), *(['--no-gap-only-sites'] if nogap else []))
        if thr > 0 or filt != 'no-filter' or mask or nogap:
            new = M.t_filter(self.T, filt, thr, fam, mask, nogap)
            if new != self.T:
                self.changed += 1
            self.T = new
        return p, 'filter(%s, min-freq %s, fam=%s, mask=%s, nogap=%s)' % (filt, mf, fam, mask, nogap)

    def op_reload(self):
        # merge with nothing is impossible; a reload = a weed that removes nothing and filters nothing
        for _ in range(1000):
            w = G.rseq(self.rng, self.k)
            if not (set(M.build([w], self.k, True)) & set(self.T)):
                break
        else:
            return None, None
        G.write_fa(self.ctx.path('none.fa'), [w])
        p = self.run('weed', self.cur, self.ctx.path('none.fa'), '--min-freq', '0')
        return p, 'reload'

    def check(self, what):
        """Compare the read-out of the history file with the model table."""
        try:
            hdr, T = G.nk(self.ctx, self.cur, binary=self.b)
        except (G.NkFailed, ValueError) as e:
            return 'nk failed after %s: %s' % (what, e)
        bad = []
        if hdr.get('names') != self.names:
            bad.append('names %s expected %s' % (hdr.get('names'), self.names))
        if T != self.T:
            d = [(x, T.get(x), self.T.get(x)) for x in set(T) | set(self.T) if T.get(x) != self.T.get(x)]
            bad.append('table: %d rows, model %d; e.g. %s' % (len(T), len(self.T), d[:3]))
        counts = [sum(1 for r in self.T.values() if r[i] != '-') for i in range(len(self.names))]
        if hdr.get('kmers_per_sample') != counts and not bad:
            bad.append('per-sample counts %s expected %s' % (hdr.get('kmers_per_sample'), counts))
        if not bad and self.b == self.ctx.bins['rel'] and self.T:
            # the stored object itself (decoded integers, rows, container lengths); the per-row counts are left unjudged
            # because an earlier --filter-ambig-as-missing legitimately leaves another kind of count in the file
            bad += G.stored_problems(self.ctx, self.cur, self.T, self.names, self.k, True, counts=None, kbits=False)
            if not bad:
                self.res.count('stored_objects_checked')
        return '; '.join(bad) if bad else None


def apply_template(hist, t, rng):
    """Yields (process, description) for the forced steps."""
    n_ = len(hist.names)
    if t == 'famfilter_then_align':
        # a count-changing filter (ambiguous bases as missing) that keeps rows whose stored count then differs from the plain count
        yield hist.op_filter(filt=rng.choice(['no-const', 'no-filter', 'no-ambig-or-const']), mf=rng.choice(freq_choices(n_)[:2] + freq_choices(n_)), fam=True, mask=False, nogap=False)
    elif t == 'mask_then_count':
        yield hist.op_filter(filt='no-filter', mf='0', fam=False, mask=True, nogap=False)
        yield hist.op_filter(filt=rng.choice(FILTERS), mf=rng.choice(freq_choices(n_)), fam=True, mask=False, nogap=False)
    elif t == 'delete_then_filter':
        yield hist.op_delete()
        yield hist.op_filter(fam=rng.random() < 0.5)
    elif t == 'merge_after_filter':
        yield hist.op_filter(filt=rng.choice(['no-const', 'no-ambig-or-const']), fam=True)
        yield hist.op_merge()
    elif t == 'weed_empty_then_merge':
        yield hist.op_weed(False, ws=list(hist.T))
        yield hist.op_merge()


def make_fresh(hist, ctx, binary, res):
    """A file with the same content and no history."""
    k = hist.k
    ns = len(hist.names)
    d = ctx.path('fr')
    os.makedirs(d, exist_ok=True)
    empty = [i for i in range(ns) if all(r[i] == '-' for r in hist.T.values())]
    if not empty and hist.T:
        ctx.write('fresh.tsv', '')
        lines = []
        for s, nm in enumerate(hist.names):
            fn = os.path.join(d, 'f%d.fa' % s)
            G.write_fa(fn, G.table_records(hist.T, k, s))
            lines.append('%s\t%s\n' % (nm, fn))
        ctx.write('fresh.tsv', ''.join(lines))
        p = G.ska_build(ctx, ctx.path('fresh'), ['-f', ctx.path('fresh.tsv')], k, True, binary=binary)
        if p.returncode != 0:
            raise Inconclusive('fresh build failed: ' + p.stderr[-200:])
        res.count('fresh_via_build')
    else:
        ctx.write('fresh_table.tsv', '\t'.join(hist.names) + '\n' + ''.join('%s\t%s\n' % (a, ''.join(b)) for a, b in hist.T.items()))
        p = ctx.sh(ctx.bins['harness'], 'fresh', ctx.path('fresh.skf'), k, 1, ctx.path('fresh_table.tsv'))
        if p.returncode != 0:
            raise Inconclusive('harness fresh failed: ' + p.stderr[-200:])
        res.count('fresh_via_library')
    hdr, T = G.nk(ctx, ctx.path('fresh.skf'), binary=binary)
    if T != hist.T or hdr.get('names') != hist.names:
        raise Inconclusive('fresh file does not have the intended content')
    return ctx.path('fresh.skf')


def run_case(desc, ctx):
    res = Result()
    k = desc['k']
    for variant in (['rel', 'chk'] if desc.get('chk') else ['rel']):
        rng = random.Random(desc['seed'])
        b = ctx.bins[variant]
        ctx.clean()
        hist = History(ctx, b, k, rng, res)
        hist.start(rng.randint(2, 6), rng.randint(3, 40))
        start_table = dict(hist.T)
        failed = False
        judged = variant == 'rel'

        def step(gen_or_pair):
            nonlocal failed
            p, what = gen_or_pair
            if p is None:
                return
            hist.steps.append(what)
            if variant == 'chk' and p.returncode != 0 and 'overflow' in p.stderr:
                res.count('chk_overflow_panics')
                res.see('chk_overflow_site', p.stderr.split('panicked at ')[-1].split('\n')[0][:80])
                failed = True
                return
            if judged:
                res.evals += 1
                res.count('op:' + what.split('(')[0].replace('reverse weed', 'rweed').strip())
            if p.returncode != 0:
                res.violate('C10:step-failed:%s' % what.split('(')[0], 'k=%d history %s: operation failed: %s' % (k, hist.steps, p.stderr.strip()[-200:]),
                            {'start': start_table, 'history': hist.steps})
                failed = True
                return
            bad = hist.check(what)
            if bad:
                res.violate('C10:table-after:%s' % what.split('(')[0], 'k=%d (%s) after history %s: %s' % (k, variant, hist.steps, bad),
                            {'start': start_table, 'history': hist.steps})
                failed = True

        pre = rng.randint(0, 3) if desc['template'] else rng.randint(1, 8)
        ops = ['merge', 'delete', 'weed', 'rweed', 'filter', 'filter', 'reload', 'refused', 'weed-nothing']
        for _ in range(pre):
            if failed or not hist.T:
                break
            op = rng.choice(ops)
            if op == 'merge':
                step(hist.op_merge())
            elif op == 'delete':
                step(hist.op_delete())
            elif op == 'weed':
                step(hist.op_weed(False))
            elif op == 'rweed':
                step(hist.op_weed(True))
            elif op == 'filter':
                step(hist.op_filter())
            elif op == 'refused':
                step(hist.op_refused())
            elif op == 'weed-nothing':
                # the reverse form empties the table and thereby ends the history: rarer
                step(hist.op_weed(rng.random() < 0.25, nothing=True))
            else:
                step(hist.op_reload())
        if desc['template'] and not failed and (hist.T or desc['template'] == 'weed_empty_then_merge'):
            if hist.T:
                for pair in apply_template(hist, desc['template'], rng):
                    if failed:
                        break
                    step(pair)
                if judged and not failed:
                    res.count('template:' + desc['template'])
        if failed or not hist.T:
            if not hist.T and not failed:
                res.count('history_ended_empty')
            continue
        # ---- final differential comparison with a fresh file of the same content
        fresh = make_fresh(hist, ctx, b, res)
        ns = len(hist.names)
        detail = {'start': start_table, 'history': hist.steps, 'final_names': hist.names}

        def both(*args, out=None):
            r = []
            for f in (hist.cur, fresh):
                work = ctx.path('cmp.skf')
                shutil.copy(f, work)
                p = ctx.sh(b, *[work if a == '@' else a for a in args])
                extra = None
                if out and p.returncode == 0:
                    try:
                        extra = G.nk(ctx, out if out != '@' else work, binary=b)
                    except (G.NkFailed, ValueError) as e:
                        extra = str(e)
                r.append((p.returncode, p.stdout, extra))
            return r
        settings = []
        for filt in FILTERS:
            for fam in (False, True):
                for mf in rng.sample(freq_choices(ns), min(2, len(freq_choices(ns)))):
                    settings.append((filt, mf, fam, rng.random() < 0.3, rng.random() < 0.3))
        for (filt, mf, fam, mask, nogap) in settings:
            args = ['align', '@', '--filter', filt, '--min-freq', mf] + (['--filter-ambig-as-missing'] if fam else []) + \
                (['--ambig-mask'] if mask else []) + (['--no-gap-only-sites'] if nogap else [])
            (r1, o1, _), (r2, o2, _) = both(*args)
            if judged:
                res.evals += 1
            a1 = M.parse_fasta(o1)
            a2 = M.parse_fasta(o2)
            if r1 != r2 or a1[0] != a2[0] or sorted(M.columns(a1[1])) != sorted(M.columns(a2[1])):
                res.violate('C10:final:align', 'k=%d (%s) history %s: `ska align %s` gives %d columns on the history file and %d on a fresh file with the same content'
                            % (k, variant, hist.steps, ' '.join(args[2:]), len(M.columns(a1[1])), len(M.columns(a2[1]))), detail)
                break
            if judged:
                res.count('final_align_compared')
        mf = rng.choice(freq_choices(ns))
        (r1, o1, _), (r2, o2, _) = both('distance', '@', '--min-freq', mf)
        if r1 != r2 or o1 != o2:
            res.violate('C10:final:distance', 'k=%d history %s: distance --min-freq %s differs between the history file and a fresh file' % (k, hist.steps, mf), detail)
        elif judged:
            res.count('final_distance_compared')
            res.evals += 1
        # map against a reference made of some of the k-mers
        h = (k - 1) // 2
        ctx.write('ref.fa', '>r\n%s\n' % 'N'.join(a[:h] + 'A' + a[h:] for a in rng.sample(list(hist.T), min(6, len(hist.T)))))
        for fmt in ('aln', 'vcf'):
            (r1, o1, _), (r2, o2, _) = both('map', ctx.path('ref.fa'), '@', '-f', fmt)
            if r1 != r2 or o1 != o2:
                res.violate('C10:final:map', 'k=%d history %s: map -f %s differs between the history file and a fresh file' % (k, hist.steps, fmt), detail)
            elif judged:
                res.count('final_map_compared')
                res.evals += 1
        ws = rng.sample(list(hist.T), max(1, len(hist.T) // 3))
        G.write_fa(ctx.path('fw.fa'), [a[:h] + 'C' + a[h:] + 'N' for a in ws])
        filt, fam = rng.choice(FILTERS), rng.random() < 0.5
        mfw = rng.choice(freq_choices(ns))
        (r1, _o, e1), (r2, _o2, e2) = both('weed', '@', ctx.path('fw.fa'), '--min-freq', mfw, '--filter', filt, *(['--filter-ambig-as-missing'] if fam else []), out='@')
        if r1 != r2 or (e1 is not None and (e1[1] != e2[1] or e1[0].get('names') != e2[0].get('names') or e1[0].get('kmers_per_sample') != e2[0].get('kmers_per_sample'))):
            res.violate('C10:final:weed', 'k=%d history %s: a further weed (--filter %s --min-freq %s fam=%s) differs between the history file and a fresh file'
                        % (k, hist.steps, filt, mfw, fam), detail)
        elif judged:
            res.count('final_weed_compared')
            res.evals += 1
        if ns >= 2:
            dn = rng.sample(hist.names, rng.randint(1, ns - 1))
            (r1, _o, e1), (r2, _o2, e2) = both('delete', '-s', '@', *dn, out='@')
            if r1 != r2 or (e1 is not None and (e1[1] != e2[1] or e1[0].get('names') != e2[0].get('names'))):
                res.violate('C10:final:delete', 'k=%d history %s: a further delete %s differs between the history file and a fresh file' % (k, hist.steps, dn), detail)
            elif judged:
                res.count('final_delete_compared')
                res.evals += 1
        if judged:
            res.see('history_length', len(hist.steps))
            if hist.changed >= 2:
                res.nontrivial.append(fingerprint([k, start_table, hist.steps]))
            if res.sample is None:
                res.sample = {'k': k, 'template': desc['template'], 'start_rows': len(start_table), 'history': hist.steps,
                              'final_rows': len(hist.T), 'final_names': hist.names}
    return res
