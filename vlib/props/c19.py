"""C19 - A damaged .skf is rejected, never read as different data (fault enumeration)."""
import os
import random
import shutil
import subprocess

from .. import gen as G
from .. import model as M
from ..run import Result, fingerprint, Inconclusive
from . import c07

ID = 'C19'
LEVEL = 'fault_enumeration'
BUDGET = {'quick': 300, 'thorough': 3000}
CHUNK = 1
RULE = ('For each of a set of valid .skf files (64- and 128-bit, 1..12 samples, empty table, one to several compression frames) '
        'EVERY proper prefix and EVERY single-bit flip of every byte is produced.  Small files go through the real command line '
        '(`ska nk --full-info`), all files through the library load used by every subcommand (harness, 64 bits tried first then '
        '128, as the command line does; sharded into sub-processes with an address-space limit so that an allocation failure on '
        'a corrupted length only ends its shard and is recorded as a rejection).  Each damaged copy must be rejected or decode '
        'to exactly the original content (k, strand mode, names, rows, and the whole re-serialised object).  A random sample of damaged copies (cuts at every chunk '
        'boundary included; a third of the copies under a bare name next to a valid, different <name>.skf) additionally goes through align, map, distance, weed '
        '(with and without weed file, with --ambig-mask), delete, merge (as first or second and as third argument after a larger file), lo, nk and plain nk: each must fail or '
        'give the result of the original; a command that accepts its input and writes an output that cannot be read back has produced a different result.  A 1.3 MB file '
        'rewritten by an in-place delete is damaged at every chunk boundary, over its last 256 bytes completely and at a random sample.  In-place rewrites (delete, weed, and '
        '`weed --ambig-mask` on a several-frame file with a few ambiguous bases, which keeps the frame layout) are killed (SIGKILL) or given ENOSPC at every write system call '
        '(strace fault injection): the file left behind must be rejected or decode to the complete output (or be the untouched original).  The release binary also runs '
        'under valgrind memcheck on intact and damaged copies of the small files (any report is a violation).  Thorough tier: the enumeration of the files up to 12 kB is repeated '
        'on a harness built with AddressSanitizer, more crash files and operations, a 90 000-row and a 950 000-row file with targeted damage.  '
        'Non-trivial: a damaged copy that differs from the original bytes; distinct = (file, damage).')
ASSUMPTIONS = ['content = k, strand mode, sample names and rows; ska_version and k_bits are container metadata',
               'single faults only: one truncation or one flipped bit per copy',
               'an abort (allocation failure) is a rejection with an error, counted separately']
REQUIRED = {'quick': ['cli_copies_judged', 'lib_copies_judged', 'files_64bit', 'files_128bit', 'accepted_identical', 'rejected',
                      'subcommand_samples', 'crash_points_kill', 'crash_points_enospc', 'memcheck_runs'],
            'thorough': ['cli_copies_judged', 'lib_copies_judged', 'files_64bit', 'files_128bit', 'accepted_identical', 'rejected',
                         'subcommand_samples', 'multi_frame_files', 'crash_points_kill', 'crash_points_enospc', 'asan_copies_judged', 'targeted_copies_judged', 'memcheck_runs']}
MEM_GB = 3


def builds(tier):
    return ['rel', 'harness'] + (['harness-asan'] if tier == 'thorough' else [])


def make_files(tier, rng, ctx):
    """Valid files to damage: list of dict(name, path, k, kind)."""
    files = []

    def build(name, k, samples, rcmode=True):
        fns = [G.write_fa(ctx.path('%s_s%d.fa' % (name, i)), recs) for i, recs in enumerate(samples)]
        p = G.ska_build(ctx, ctx.path(name), fns, k, rcmode)
        if p.returncode != 0:
            raise Inconclusive('could not build %s: %s' % (name, p.stderr[-200:]))
        return ctx.path(name + '.skf')

    # tiny files for the command-line route
    files.append({'name': 'tiny64', 'k': 9, 'path': build('tiny64', 9, [[G.rseq(rng, 40)]]), 'cli': True})
    files.append({'name': 'tiny128', 'k': 35, 'path': build('tiny128', 35, [[G.rseq(rng, 60)], [G.rseq(rng, 50)]]), 'cli': True})
    # planted-SNP genomes, so that lo has something to say
    anc = G.rseq(rng, 400)
    samples = []
    for i in range(4):
        s = list(anc)
        for pos in (100, 200, 300):
            if (i + pos // 100) % 2:
                s[pos] = {'A': 'C', 'C': 'A', 'G': 'T', 'T': 'G'}[s[pos]]
        samples.append([''.join(s)])
    files.append({'name': 'snps64', 'k': 15, 'path': build('snps64', 15, samples), 'cli': tier == 'thorough', 'lo': True})
    # empty table: weed everything
    p_ = build('empty', 11, [[G.rseq(rng, 30)]])
    G.write_fa(ctx.path('all.fa'), [open(ctx.path('empty_s0.fa')).read().split('\n')[1]])
    p = ctx.sh(ctx.ska, 'weed', p_, ctx.path('all.fa'), '--min-freq', '0')
    if p.returncode != 0:
        raise Inconclusive('could not make the empty file')
    files.append({'name': 'empty', 'k': 11, 'path': p_, 'cli': True})
    # 12 samples
    ss = c07.gen_samples(rng, 31, 12)
    ss = [s if M.build(s, 31, True) else [G.rseq(rng, 80)] for s in ss]
    files.append({'name': 'twelve', 'k': 31, 'path': build('twelve', 31, ss), 'cli': False})
    # two frames (> 64 kB uncompressed)
    base = G.rseq(rng, 2600)
    files.append({'name': 'twoframe128', 'k': 41, 'path': build('twoframe128', 41, [[base], [base[:1300] + G.rseq(rng, 1300)]]), 'cli': False})
    # > 4096 rows, 64-bit, two frames; three sizes so that the 64 KiB frame boundary of the uncompressed stream falls inside
    # the per-row counts (about 5 700 rows), the base matrix (6 200) and the k-mer list (8 000)
    files.append({'name': 'twoframe64', 'k': 31, 'path': build('twoframe64', 31, [[G.rseq(rng, 6200)]]), 'cli': False})
    files.append({'name': 'twoframe64b', 'k': 31, 'path': build('twoframe64b', 31, [[G.rseq(rng, 5730)]]), 'cli': False})
    files.append({'name': 'twoframe64c', 'k': 31, 'path': build('twoframe64c', 31, [[G.rseq(rng, 8030)]]), 'cli': False})
    # for the crash route only: a table whose base matrix spans several frames, with a handful of ambiguous bases far apart.  An
    # in-place `weed --ambig-mask` rewrites those few bytes and nothing else, so the new file's frames line up with the old one's
    # and a rewrite that does not start from an empty file would leave a splice with valid checksums
    ag = G.rseq(rng, 40000)
    ag2 = list(ag[:20000])
    for i_ in range(1000, len(ag2), 2500):
        ag2[i_] = {'A': 'C', 'C': 'A', 'G': 'T', 'T': 'G'}[ag2[i_]]
    files.append({'name': 'ambcrash64', 'k': 31, 'cli': False, 'crash_only': True,
                  'path': build('ambcrash64', 31, [[ag, ''.join(ag2)], [ag[:30000] + G.rseq(rng, 3000)], [ag[5000:]], [ag[:35000]]])})
    # a file of more than 1 MiB that an in-place delete has rewritten (whatever that operation leaves at the end of the file is part of
    # the file): damage targeted at chunk boundaries, at the last 256 bytes completely, and at a random sample
    dg = G.rseq(rng, 42000)
    pdel = build('afterdelete64', 31, [[dg], [dg[:21000] + G.rseq(rng, 21000)], [G.rseq(rng, 42000)]])
    if ctx.sh(ctx.ska, 'delete', '-s', pdel, 'afterdelete64_s2').returncode != 0:
        raise Inconclusive('could not prepare the file rewritten by delete')
    files.append({'name': 'afterdelete64', 'k': 31, 'path': pdel, 'cli': False, 'targeted': True, 'sample': (300, 2500) if tier == 'quick' else (3000, 30000)})
    if tier == 'thorough':
        # 8 MiB and more: a loader that treats large files differently
        gg = G.rseq(rng, 950000)
        files.append({'name': 'giant64', 'k': 31, 'path': build('giant64', 31, [[gg]]), 'cli': False, 'targeted': True, 'sample': (200, 2500)})
    if tier == 'thorough':
        big = G.rseq(rng, 8000)
        files.append({'name': 'manyframes64', 'k': 31, 'path': build('manyframes64', 31, [[big], [big[:4000] + G.rseq(rng, 4000)], [G.rseq(rng, 4500)]]), 'cli': False})
        # > 65536 rows: too big for a complete enumeration; damage is targeted at the frame structure plus a random sample
        hg = G.rseq(rng, 60000)
        files.append({'name': 'huge64', 'k': 31, 'path': build('huge64', 31, [[hg], [hg[:30000] + G.rseq(rng, 30000)]]), 'cli': False, 'targeted': True})
        files.append({'name': 'single_strand', 'k': 21, 'path': build('single_strand', 21, [[G.rseq(rng, 120)]], rcmode=False), 'cli': True})
    for f in files:
        f['size'] = os.path.getsize(f['path'])
    return files


def prepare(tier, seed, rng, scale, ctx):
    files = make_files(tier, rng, ctx)
    descs = []
    for f in [x for x in files if x.get('targeted')]:
        data = open(f['path'], 'rb').read()
        # chunk boundaries of the snappy frame format
        bounds, i = [], 0
        while i + 4 <= len(data):
            bounds.append(i)
            i += 4 + (data[i + 1] | (data[i + 2] << 8) | (data[i + 3] << 16))
        nt_, nf_ = f.get('sample', (3000, 30000))
        tail = range(max(0, len(data) - 256), len(data))          # the end of the file completely (whatever a writer appends last)
        tr = sorted({min(len(data) - 1, max(0, b + d)) for b in bounds for d in (-2, -1, 0, 1, 2, 3, 4, 5)} | {rng.randrange(len(data)) for _ in range(nt_)} | set(tail))
        fl = sorted({(b + o) * 8 + bit for b in bounds for o in range(8) for bit in range(8) if b + o < len(data)} | {rng.randrange(len(data) * 8) for _ in range(nf_)}
                    | {x * 8 + bit for x in tail for bit in range(8)})
        for mode, idx in (('trunc', tr), ('flip', fl)):
            for a in range(0, len(idx), 1500):
                lf = ctx.write('%s_%s_%d.idx' % (f['name'], mode, a), '\n'.join(str(x) for x in idx[a:a + 1500]) + '\n')
                descs.append({'route': 'lib', 'mode': mode, 'list_file': lf, 'n': len(idx[a:a + 1500]), 'skf_file': f['path'], 'name': f['name'], 'k': f['k']})
        descs.append({'route': 'meta', 'skf_file': f['path'], 'name': f['name'], 'k': f['k'], 'size': f['size']})
    for f in [x for x in files if not x.get('targeted') and not x.get('crash_only')]:
        size = f['size']
        # library route: all truncation points, all bit flips, in shards
        nshard_t = max(1, size // 20000)
        for i in range(nshard_t):
            a, b = size * i // nshard_t, size * (i + 1) // nshard_t
            descs.append({'route': 'lib', 'mode': 'trunc', 'start': a, 'end': b, 'skf_file': f['path'], 'name': f['name'], 'k': f['k']})
        nshard_f = max(1, size * 8 // 40000)
        for i in range(nshard_f):
            a, b = size * 8 * i // nshard_f, size * 8 * (i + 1) // nshard_f
            descs.append({'route': 'lib', 'mode': 'flip', 'start': a, 'end': b, 'skf_file': f['path'], 'name': f['name'], 'k': f['k']})
        if f['cli']:
            step = 400
            for a in range(0, size, step):
                descs.append({'route': 'cli', 'mode': 'trunc', 'start': a, 'end': min(size, a + step), 'skf_file': f['path'], 'name': f['name'], 'k': f['k']})
            for a in range(0, size * 8, step):
                descs.append({'route': 'cli', 'mode': 'flip', 'start': a, 'end': min(size * 8, a + step), 'skf_file': f['path'], 'name': f['name'], 'k': f['k']})
        if tier == 'thorough' and size <= 12000:
            # the same enumeration under AddressSanitizer (decoders of damaged data are where memory errors would hide)
            for mode, total in (('trunc', size), ('flip', size * 8)):
                step = 20000
                for a in range(0, total, step):
                    descs.append({'route': 'lib', 'asan': True, 'mode': mode, 'start': a, 'end': min(total, a + step), 'skf_file': f['path'],
                                  'name': f['name'], 'k': f['k']})
        nsamp = max(20, int(size * 9 * 0.01)) if tier == 'thorough' else min(60, max(20, int(size * 9 * 0.005)))
        nsamp = int(nsamp * scale) or 1
        for j in range(0, nsamp, 10):
            descs.append({'route': 'sub', 'n': min(10, nsamp - j), 'seed': rng.getrandbits(32), 'skf_file': f['path'], 'name': f['name'], 'k': f['k'],
                          'lo': f.get('lo', False)})
        descs.append({'route': 'meta', 'skf_file': f['path'], 'name': f['name'], 'k': f['k'], 'size': size})
    for f in files:
        if tier == 'thorough' and f['name'] in ('twelve', 'twoframe128', 'snps64', 'manyframes64', 'ambcrash64'):
            for cmd in ('delete', 'weed', 'maskweed'):
                for fault in ('kill', 'enospc'):
                    descs.append({'route': 'crash', 'cmd': cmd, 'fault': fault, 'skf_file': f['path'], 'name': f['name'], 'k': f['k']})
        elif tier == 'quick' and f['name'] == 'ambcrash64':
            for cmd, fault in (('maskweed', 'kill'), ('delete', 'kill'), ('maskweed', 'enospc')):
                descs.append({'route': 'crash', 'cmd': cmd, 'fault': fault, 'skf_file': f['path'], 'name': f['name'], 'k': f['k']})
    for f in files:
        if f['name'] in ('tiny64', 'tiny128', 'snps64', 'empty'):
            for j in range(1 if tier == 'quick' else 6):
                descs.append({'route': 'memcheck', 'n': 6 if tier == 'quick' else 14, 'seed': rng.getrandbits(32), 'skf_file': f['path'], 'name': f['name'], 'k': f['k']})
    rng.shuffle(descs)
    return descs


def run_memcheck(desc, ctx, res):
    """The command line under valgrind memcheck on damaged copies: the decoders of damaged data are where an invalid read or a use
    of uninitialised memory would hide (Rust's own checks do not cover the compression and serialisation libraries' unsafe code)."""
    if not shutil.which('valgrind'):
        raise Inconclusive('valgrind not available')
    rng = random.Random(desc['seed'])
    data = open(desc['skf_file'], 'rb').read()
    G.write_fa(ctx.path('mo.fa'), [G.rseq(rng, 3 * desc['k'])])
    o = ctx.sh(ctx.ska, 'nk', desc['skf_file'])
    rcflag = 'rc=true' in o.stdout
    if G.ska_build(ctx, ctx.path('mo'), [ctx.path('mo.fa')], desc['k'], rcflag).returncode != 0:
        raise Inconclusive('aux build failed')
    copies = [('intact', data)]
    for _ in range(desc['n']):
        mode = 'trunc' if rng.random() < 0.3 else 'flip'
        i = rng.randrange(len(data)) if mode == 'trunc' else rng.randrange(len(data) * 8)
        copies.append(('%s at %d' % (mode, i), damaged(data, mode, i)))
    for what, blob in copies:
        ctx.write('v.skf', blob)
        for cmd in (['nk', '--full-info', ctx.path('v.skf')], ['align', ctx.path('v.skf'), '--filter', 'no-filter', '--min-freq', '0'],
                    ['distance', ctx.path('v.skf')], ['merge', ctx.path('mo.skf'), ctx.path('v.skf'), '-o', ctx.path('vm')]):
            p = ctx.sh('valgrind', '-q', '--error-exitcode=99', ctx.ska, *cmd, timeout=600)
            res.evals += 1
            res.count('memcheck_runs')
            if p.returncode == 99 or 'Invalid read' in p.stderr or 'Invalid write' in p.stderr or 'uninitialised' in p.stderr:
                res.violate('C19:memcheck:%s:%s' % (cmd[0], desc['name']), '%s: valgrind memcheck reports an error in `ska %s` on a copy with %s: %s'
                            % (desc['name'], cmd[0], what, ' '.join(l for l in p.stderr.split('\n') if l.startswith('=='))[:300]),
                            {'file': desc['name'], 'damage': what, 'cmd': cmd[0]})
    res.nontrivial.append(fingerprint(['memcheck', desc['name'], desc['seed']]))


# note: files marked 'targeted' are not enumerated completely; coverage_extra says so


def content_of(txt):
    return sorted(l for l in txt.split('\n') if l and not l.startswith('ska_version') and not l.startswith('k_bits'))


def damaged(data, mode, i):
    if mode == 'trunc':
        return data[:i]
    d = bytearray(data)
    d[i // 8] ^= 1 << (i % 8)
    return bytes(d)


def run_lib(desc, ctx, res):
    asan = desc.get('asan', False)
    H = ctx.bins['harness-asan'] if asan else ctx.bins['harness']
    if desc.get('list_file'):
        # targeted list of damage indices (huge file): one process, no bisection
        p = ctx.sh(H, 'skfdamage', desc['skf_file'], desc['mode'], 'list', desc['list_file'], ctx.path('dmg.skf'), timeout=1800, mem_gb=None if asan else MEM_GB)
        done = None
        for l in p.stdout.split('\n'):
            f = l.split('\t')
            if f[0] == 'DONE':
                done = f
            elif f[0] == 'DIFF':
                res.violate('C19:lib:%s:%s' % (desc['mode'], desc['name']), '%s: %s at %s is accepted (as %s-bit) and reads as different content'
                            % (desc['name'], 'truncation' if desc['mode'] == 'trunc' else 'bit flip', f[2], f[3]),
                            {'file': desc['name'], 'mode': desc['mode'], 'index': int(f[2])})
            elif f[0] == 'SAME':
                res.count('accepted_identical')
        if not done:
            raise Inconclusive('targeted damage shard died: ' + p.stderr[-200:])
        res.evals += desc['n']
        res.nontrivial_n += desc['n']
        res.count('targeted_copies_judged', desc['n'])
        res.count('rejected', int(done[4]))
        return
    todo = [(desc['start'], desc['end'])]
    while todo:
        a, b = todo.pop()
        if a >= b:
            continue
        p = ctx.sh(H, 'skfdamage', desc['skf_file'], desc['mode'], a, b, ctx.path('dmg.skf'), timeout=900,
                   mem_gb=None if asan else MEM_GB, env={'ASAN_OPTIONS': 'detect_leaks=0:halt_on_error=1:allocator_may_return_null=1'} if asan else None)
        if asan and 'AddressSanitizer' in p.stderr:
            res.violate('C19:asan:%s' % desc['name'], 'AddressSanitizer report while loading a damaged copy of %s (%s %d..%d): %s'
                        % (desc['name'], desc['mode'], a, b, p.stderr.split('ERROR: AddressSanitizer')[-1][:300]), {'stderr': p.stderr[-3000:]})
            return
        done = None
        for l in p.stdout.split('\n'):
            f = l.split('\t')
            if f[0] == 'DONE':
                done = f
            elif f[0] == 'DIFF':
                res.violate('C19:lib:%s:%s' % (desc['mode'], desc['name']),
                            '%s: %s at %s of %s is accepted (as %s-bit) and reads as different content'
                            % (desc['name'], 'truncation' if desc['mode'] == 'trunc' else 'bit flip', f[2], desc['skf_file'], f[3]),
                            {'file': desc['name'], 'mode': desc['mode'], 'index': int(f[2])})
            elif f[0] == 'SAME':
                res.count('accepted_identical')
                res.see('accepted_identical:%s' % desc['name'], '%s:%s' % (f[1], f[2]))
        if done:
            n = b - a
            res.evals += n
            res.nontrivial_n += n
            res.count('asan_copies_judged' if asan else 'lib_copies_judged', n)
            res.count('rejected', int(done[4]))
            continue
        # the shard died (abort on allocation failure, or a crash): isolate the culprit
        if b - a == 1:
            res.evals += 1
            res.nontrivial_n += 1
            res.count('lib_copies_judged')
            res.count('rejected')
            res.count('rejected_by_abort')
            res.see('abort_returncode', p.returncode)
            if p.returncode not in (-6, 134, -11, 101, -9):
                res.see('abort_other', '%s:%d:%s' % (desc['mode'], a, p.stderr.strip()[-80:]))
            continue
        mid = (a + b) // 2
        todo.append((a, mid))
        todo.append((mid, b))


def run_cli(desc, ctx, res):
    data = open(desc['skf_file'], 'rb').read()
    o = ctx.sh(ctx.ska, 'nk', '--full-info', desc['skf_file'])
    if o.returncode != 0:
        raise Inconclusive('original does not load')
    orig = content_of(o.stdout)
    for i in range(desc['start'], desc['end']):
        ctx.write('d.skf', damaged(data, desc['mode'], i))
        p = ctx.sh(ctx.ska, 'nk', '--full-info', ctx.path('d.skf'), mem_gb=MEM_GB)
        res.evals += 1
        res.nontrivial_n += 1
        res.count('cli_copies_judged')
        if p.returncode != 0:
            res.count('rejected')
            if p.returncode < 0 or p.returncode == 134:
                res.count('rejected_by_abort')
            continue
        if content_of(p.stdout) == orig:
            res.count('accepted_identical')
        else:
            res.violate('C19:cli:%s:%s' % (desc['mode'], desc['name']),
                        '%s: %s at %d is accepted by `ska nk` and reads as different content'
                        % (desc['name'], 'truncation' if desc['mode'] == 'trunc' else 'bit flip', i),
                        {'file': desc['name'], 'mode': desc['mode'], 'index': i, 'got': p.stdout[:1500]})


SUBCOMMANDS = ['align', 'map', 'distance', 'weed', 'weed-nofile', 'weed-mask', 'delete', 'merge', 'merge3', 'lo', 'nk', 'nk-short']


def sub_run(ctx, cmd, skf, aux, tag):
    """Run one subcommand on skf; returns (returncode, comparable result)."""
    b = ctx.ska
    if cmd == 'nk':
        p = ctx.sh(b, 'nk', '--full-info', skf, mem_gb=MEM_GB)
        return p.returncode, content_of(p.stdout)
    if cmd == 'nk-short':
        # the short form has its own way through the file
        p = ctx.sh(b, 'nk', skf, mem_gb=MEM_GB)
        return p.returncode, content_of(p.stdout)
    if cmd == 'merge3':
        # the file as third argument, after a small file and after a different file that is larger than itself
        out = ctx.path('m3_%s' % tag)
        p = ctx.sh(b, 'merge', aux['other'], aux['bigger'], skf, '-o', out, mem_gb=MEM_GB)
        if p.returncode != 0:
            return p.returncode, None
        q = ctx.sh(b, 'nk', '--full-info', out + '.skf')
        # the command itself accepted its input: an output that cannot be read back is then a result, not a rejection
        return 0, (content_of(q.stdout) if q.returncode == 0 else 'the output written cannot be read back: exit %d' % q.returncode)
    if cmd == 'align':
        p = ctx.sh(b, 'align', skf, '--filter', 'no-filter', '--min-freq', '0', mem_gb=MEM_GB)
        n, s = M.parse_fasta(p.stdout)
        return p.returncode, (n, sorted(M.columns(s)))
    if cmd == 'map':
        p = ctx.sh(b, 'map', aux['ref'], skf, mem_gb=MEM_GB)
        return p.returncode, p.stdout
    if cmd == 'distance':
        p = ctx.sh(b, 'distance', skf, mem_gb=MEM_GB)
        return p.returncode, p.stdout
    if cmd == 'weed':
        out = ctx.path('w_%s.skf' % tag)
        p = ctx.sh(b, 'weed', skf, aux['weed'], '--min-freq', '0', '-o', out, mem_gb=MEM_GB)
        if p.returncode != 0:
            return p.returncode, None
        q = ctx.sh(b, 'nk', '--full-info', out)
        # the command itself accepted its input: an output that cannot be read back is then a result, not a rejection
        return 0, (content_of(q.stdout) if q.returncode == 0 else 'the output written cannot be read back: exit %d' % q.returncode)
    if cmd in ('weed-nofile', 'weed-mask'):
        # weed without a weed file: nothing to remove (and nothing to filter), or only a mask to apply
        out = ctx.path('wn_%s.skf' % tag)
        p = ctx.sh(b, 'weed', skf, '--min-freq', '0', *(['--ambig-mask'] if cmd == 'weed-mask' else []), '-o', out, mem_gb=MEM_GB)
        if p.returncode != 0:
            return p.returncode, None
        q = ctx.sh(b, 'nk', '--full-info', out)
        # the command itself accepted its input: an output that cannot be read back is then a result, not a rejection
        return 0, (content_of(q.stdout) if q.returncode == 0 else 'the output written cannot be read back: exit %d' % q.returncode)
    if cmd == 'delete':
        out = ctx.path('d_%s' % tag)
        p = ctx.sh(b, 'delete', '-s', skf, '-o', out, aux['del'], mem_gb=MEM_GB)
        if p.returncode != 0:
            return p.returncode, None
        q = ctx.sh(b, 'nk', '--full-info', out + '.skf')
        # the command itself accepted its input: an output that cannot be read back is then a result, not a rejection
        return 0, (content_of(q.stdout) if q.returncode == 0 else 'the output written cannot be read back: exit %d' % q.returncode)
    if cmd == 'merge':
        out = ctx.path('m_%s' % tag)
        order = [skf, aux['other']] if aux['merge_first'] else [aux['other'], skf]
        p = ctx.sh(b, 'merge', *order, '-o', out, mem_gb=MEM_GB)
        if p.returncode != 0:
            return p.returncode, None
        q = ctx.sh(b, 'nk', '--full-info', out + '.skf')
        # the command itself accepted its input: an output that cannot be read back is then a result, not a rejection
        return 0, (content_of(q.stdout) if q.returncode == 0 else 'the output written cannot be read back: exit %d' % q.returncode)
    if cmd == 'lo':
        out = ctx.path('lo_%s' % tag)
        p = ctx.sh(b, 'lo', skf, out, mem_gb=MEM_GB)
        r = []
        for suf in ('_snps.fas', '_indels.vcf'):
            try:
                txt = open(out + suf).read()
            except OSError:
                txt = None
            if suf == '_snps.fas' and txt is not None:
                n, s = M.parse_fasta(txt)
                txt = (n, sorted(M.canon_col(c) for c in M.columns(s)))
            elif txt is not None:
                txt = sorted(l for l in txt.split('\n') if l and not l.startswith('#'))
            r.append(txt)
        return p.returncode, r
    raise ValueError(cmd)


def run_sub(desc, ctx, res):
    rng = random.Random(desc['seed'])
    data = open(desc['skf_file'], 'rb').read()
    k = desc['k']
    o = ctx.sh(ctx.ska, 'nk', '--full-info', desc['skf_file'])
    hdr, T = M.parse_nk(o.stdout)
    names = hdr['names']
    h = (k - 1) // 2
    arms = list(T)[:5]
    aux = {'ref': ctx.path('ref.fa'), 'weed': ctx.path('weed.fa'), 'del': names[0], 'other': ctx.path('other.skf'), 'merge_first': rng.random() < 0.5,
           'intact': desc['skf_file']}
    refrecs = [a[:h] + 'A' + a[h:] for a in arms] or [G.rseq(rng, k)]
    G.write_fa(aux['ref'], ['N'.join(refrecs)])
    G.write_fa(aux['weed'], [refrecs[0]])
    G.write_fa(ctx.path('other.fa'), [G.rseq(rng, 3 * k)])
    rcflag = hdr.get('rc') == 'true'
    p = G.ska_build(ctx, ctx.path('other'), [ctx.path('other.fa')], k, rcflag)
    if p.returncode != 0:
        raise Inconclusive('aux build failed')
    # a different file that decompresses to more bytes than the one under test: its own content plus two more samples
    G.write_fa(ctx.path('other2.fa'), [G.rseq(rng, 4 * k)])
    G.ska_build(ctx, ctx.path('other2'), [ctx.path('other2.fa')], k, rcflag)
    pb = ctx.sh(ctx.ska, 'merge', ctx.path('other2.skf'), desc['skf_file'], aux['other'], '-o', ctx.path('bigger'))
    aux['bigger'] = ctx.path('bigger.skf')
    cmds = [c for c in SUBCOMMANDS if (c != 'lo' or desc.get('lo')) and (c != 'delete' or len(names) > 1) and (c != 'merge3' or pb.returncode == 0)]
    base = {}
    for c in cmds:
        base[c] = sub_run(ctx, c, desc['skf_file'], aux, 'orig')
    # cuts where the compressed stream ends cleanly: nothing at all, the stream identifier alone, every chunk boundary
    clean_cuts, pos_ = [0], 0
    while pos_ + 4 <= len(data):
        pos_ += 4 + (data[pos_ + 1] | (data[pos_ + 2] << 8) | (data[pos_ + 3] << 16))
        if pos_ < len(data):
            clean_cuts.append(pos_)
    rng.shuffle(clean_cuts)
    for it in range(desc['n']):
        mode = 'trunc' if rng.random() < 0.2 else 'flip'
        i = rng.randrange(len(data)) if mode == 'trunc' else rng.randrange(len(data) * 8)
        if it < 2 and it < len(clean_cuts):
            mode, i = 'trunc', clean_cuts[it]
            res.count('cuts_at_chunk_boundaries')
        # the damaged copy under a name ending in .skf, or (a third) under a bare name next to a VALID, different file called
        # <name>.skf (what `weed -o run` followed by `delete -s run` leaves around)
        dname = 'd.skf'
        if it % 3 == 2:
            dname = 'run%d' % it
            shutil.copy(aux['other'], ctx.path(dname + '.skf'))
            res.count('damaged_copy_next_to_a_valid_sibling')
        ctx.write(dname, damaged(data, mode, i))
        for c in cmds:
            rcode, result = sub_run(ctx, c, ctx.path(dname), aux, 'dmg')
            res.evals += 1
            res.count('subcommand_samples')
            res.count('sub:' + c)
            if rcode != 0:
                res.count('rejected')
                continue
            if base[c][0] != 0:
                # the original itself makes this subcommand fail (e.g. nothing to map in an empty table): nothing to compare
                res.count('sub_original_fails:' + c)
                continue
            if result != base[c][1]:
                res.violate('C19:sub:%s:%s' % (c, desc['name']),
                            '%s: `ska %s` accepts a copy with a %s at %d and gives a result different from the original\'s'
                            % (desc['name'], c, 'truncation' if mode == 'trunc' else 'bit flip', i),
                            {'file': desc['name'], 'mode': mode, 'index': i, 'cmd': c})
            else:
                res.count('accepted_identical')
        res.nontrivial.append(fingerprint(['sub', desc['name'], mode, i]))


def run_crash(desc, ctx, res):
    """Kill / ENOSPC at every write system call of an in-place delete or weed."""
    if not shutil.which('strace'):
        raise Inconclusive('strace not available')
    o = ctx.sh(ctx.ska, 'nk', '--full-info', desc['skf_file'])
    hdr, T = M.parse_nk(o.stdout)
    names = hdr['names']
    k = desc['k']
    h = (k - 1) // 2
    if desc['cmd'] == 'delete':
        if len(names) < 2:
            return
        args = ['delete', '-s', '@', names[0]]
    elif desc['cmd'] == 'maskweed':
        # rewrites every ambiguous base as N and nothing else: same rows, same layout, other content
        args = ['weed', '@', '--ambig-mask', '--min-freq', '0']
    else:
        a = next(iter(T))
        G.write_fa(ctx.path('w.fa'), [a[:h] + 'A' + a[h:]])
        args = ['weed', '@', ctx.path('w.fa'), '--min-freq', '0']
    work = ctx.path('work.skf')
    shutil.copy(desc['skf_file'], work)
    p = ctx.sh(ctx.ska, *[work if x == '@' else x for x in args])
    if p.returncode != 0:
        raise Inconclusive('uninjected run failed: ' + p.stderr[-200:])
    complete = open(work, 'rb').read()
    want = content_of(ctx.sh(ctx.ska, 'nk', '--full-info', work).stdout)
    inject = 'signal=KILL' if desc['fault'] == 'kill' else 'error=ENOSPC'
    n = 0
    while n < 400:
        n += 1
        shutil.copy(desc['skf_file'], work)
        # a full disk stays full: ENOSPC is injected at the n-th write and at every later one
        when = '%d' % n if desc['fault'] == 'kill' else '%d+' % n
        p = ctx.sh('strace', '-f', '-qq', '-o', '/dev/null', '-e', 'trace=write', '-e', 'inject=write:%s:when=%s' % (inject, when),
                   ctx.ska, *[work if x == '@' else x for x in args], timeout=300)
        left = open(work, 'rb').read() if os.path.exists(work) else b''
        if p.returncode == 0 and left == complete:
            break           # the n-th write does not exist: all crash points enumerated
        res.evals += 1
        res.nontrivial_n += 1
        res.count('crash_points_%s' % desc['fault'])
        sig = 'C19:crash:%s:%s:%s' % (desc['cmd'], desc['fault'], desc['name'])
        if left == open(desc['skf_file'], 'rb').read():
            res.count('crash_before_truncation')
            continue
        if not complete.startswith(left):
            res.count('leftover_not_a_prefix')       # outside the statement's premise; still must not read as other data
        q = ctx.sh(ctx.ska, 'nk', '--full-info', work, mem_gb=MEM_GB)
        if q.returncode != 0:
            res.count('rejected')
        elif content_of(q.stdout) == want:
            res.count('accepted_identical')
        elif content_of(q.stdout) == content_of(o.stdout):
            res.count('accepted_as_the_file_before_the_operation')
        else:
            res.violate(sig, '%s interrupted (%s) at write %d leaves a %d-byte file that is accepted as different content'
                        % (desc['cmd'], desc['fault'], n, len(left)), desc)
    else:
        raise Inconclusive('more than 400 write calls')


def data_chunks(b):
    """Number of data chunks of a snappy framed stream."""
    i, n = 0, 0
    while i + 4 <= len(b):
        t = b[i]
        ln = b[i + 1] | (b[i + 2] << 8) | (b[i + 3] << 16)
        if t in (0, 1):
            n += 1
        i += 4 + ln
    return n


def run_case(desc, ctx):
    res = Result()
    route = desc['route']
    if route == 'lib':
        run_lib(desc, ctx, res)
    elif route == 'cli':
        run_cli(desc, ctx, res)
    elif route == 'sub':
        run_sub(desc, ctx, res)
    elif route == 'crash':
        run_crash(desc, ctx, res)
    elif route == 'memcheck':
        run_memcheck(desc, ctx, res)
    elif route == 'meta':
        o = ctx.sh(ctx.ska, 'nk', '--full-info', desc['skf_file'])
        hdr, T = M.parse_nk(o.stdout)
        res.count('files_64bit' if hdr['k_bits'] == '64' else 'files_128bit')
        res.count('files')
        nframes = data_chunks(open(desc['skf_file'], 'rb').read())
        res.see('frames', nframes)
        if nframes > 1:
            res.count('multi_frame_files')
        res.see('file', '%s: %d bytes, %d frame(s), k=%s, %s-bit, %s samples, %s rows' % (desc['name'], desc['size'], nframes, hdr['k'], hdr['k_bits'], hdr['samples'], hdr['k-mers']))
        res.sample = {'file': desc['name'], 'bytes': desc['size'], 'k': hdr['k'], 'k_bits': hdr['k_bits'], 'samples': hdr['samples'], 'rows': hdr['k-mers'],
                      'damaged_copies': desc['size'] * 9}
    return res


def coverage_extra(tier, counters, sets):
    return {'exhaustive': True,
            'exhaustive_scope': 'per listed file (except huge64 in the thorough tier, > 65536 rows, where damage is targeted at every frame boundary and header plus a random sample): every truncation point and every single-bit flip through the library load; the '
                                'command-line route is exhaustive for the files marked small; subcommand and crash-point parts are as counted'}
