"""C13 - Weeding removes exactly the k-mers of the weed sequences and nothing else."""
import os
import random

from .. import gen as G
from .. import model as M
from ..run import Result, fingerprint
from . import c07

ID = 'C13'
LEVEL = 'exploration'
BUDGET = {'quick': 150, 'thorough': 1800}
CHUNK = 2
RULE = ('Cases: files of 2..6 samples and a weed FASTA made of pieces of the samples (some reverse-complemented, mutated, '
        'containing N, lower case, a fifth gzipped), random sequence, records shorter than k, everything (empty result) or nothing; a few files per run hold thousands of rows and are weeded with thousands of k-mers; the result is written in place, with -o over an existing larger file (the input must stay untouched), or with -o naming the input; a quarter of the files are not called *.skf (weed uses literal file names).  '
        '`ska weed x.skf seqs.fa --min-freq 0` and `--reverse` are compared with the model (rows whose arms are / are not in '
        'the model dictionary of seqs.fa at the file\'s k and strand mode); the stored result is also decoded through the harness (k-mer integers, rows, per-row counts, container lengths); forward and reverse results must partition the '
        'original, surviving rows keep all bases, names are unchanged, a second identical weed changes nothing.  Error paths: a weed file without any split k-mer (short records, N-riddled, missing) leaves the stored content as it was (in place and with -o over an existing file), and an unwritable -o target does not end in exit 0.  In '
        'single-strand files a reverse-complemented weed sequence must not match.  Widths across k=31/33/35.  Non-trivial: the '
        'weed set removes some but not all rows; distinct = distinct (k, mode, samples, weed records).')
ASSUMPTIONS = ['frequency filtering is switched off with --min-freq 0 as the statement requires',
               'the model dictionary of the weed file is computed by vlib/model.py']
REQUIRED = {t: ['weed:forward', 'weed:reverse', 'partition_checked', 'idempotence_checked', 'weed_all', 'weed_nothing',
                'single_strand_rc_not_matched', 'rows_removed', 'rows_kept', 'width64', 'width128', 'stored_objects_checked',
                'weed_without_kmers_leaves_file_intact', 'unwritable_output_refused', 'files_not_named_skf', 'weed_headers_sharing_their_first_word', 'weed_file_gzipped', 'out:inplace', 'out:same-file', 'out:other-existing-file', 'files_of_4096+_rows'] for t in ('quick', 'thorough')}


def builds(tier):
    return ['rel', 'chk', 'harness']


def plan(tier, seed, rng, scale):
    descs = []
    for k in (29, 31, 33, 35):
        for rcmode in (True, False):
            for kind in ('pieces', 'all', 'nothing', 'ssrc'):
                descs.append({'k': k, 'rc': rcmode, 'kind': kind, 'seed': rng.getrandbits(32)})
    n = int((3000 if tier == 'quick' else 25000) * scale)
    for i in range(n):
        descs.append({'k': rng.choice(G.ALL_K), 'rc': rng.random() < 0.65,
                      'kind': rng.choice(['pieces'] * 6 + ['all', 'nothing', 'ssrc']), 'seed': rng.getrandbits(32)})
    for i in range(int((6 if tier == 'quick' else 60) * max(scale, 0.25))):
        # large files (thousands of rows) weeded with thousands of k-mers: rows at any place of the stored table go
        descs.insert(40 + 5 * i, {'k': rng.choice([15, 21, 31, 33, 41]), 'rc': rng.random() < 0.65, 'kind': 'pieces',
                                  'large': rng.choice([3000, 8000, 20000] if tier == 'quick' else [3000, 8000, 20000, 50000]), 'seed': rng.getrandbits(32)})
    for i, d in enumerate(descs):
        d['chk'] = (i % 7 == 0) and not d.get('large')
    return descs


def gen_weed(rng, samples, k, kind, rcmode):
    if kind == 'all':
        recs = [r for s in samples for r in s]
        rng.shuffle(recs)
        return recs
    if kind == 'nothing':
        return [G.rseq(rng, rng.randint(k, 3 * k)) for _ in range(rng.randint(1, 3))] + [G.rseq(rng, k - 1)]
    if kind == 'ssrc':
        src = rng.choice(rng.choice(samples)).upper()
        return [M.rc_n(src)]
    recs = []
    for _ in range(rng.randint(1, 4)):
        src = rng.choice(rng.choice(samples))
        a = rng.randrange(len(src))
        b = min(len(src), a + (k if rng.random() < 0.2 else rng.randint(k, 3 * k)))      # a fifth of the pieces are exactly k long
        w = src[a:b]
        t = rng.random()
        if t < 0.4:
            w = M.rc_n(w)
        elif t < 0.5:
            w = G.rseq(rng, rng.randint(k, 2 * k))
        elif t < 0.6:
            w = G.rseq(rng, rng.randint(1, k - 1))
        if rng.random() < 0.2 and len(w) > 2:
            i = rng.randrange(len(w))
            w = w[:i] + rng.choice('NnACGT') + w[i + 1:]
        if rng.random() < 0.25 and len(w) > k + 1:
            i = len(w) - k - 1                       # exactly k bases follow the N (and sometimes exactly k precede one)
            w = w[:i] + 'N' + w[i + 1:]
            if rng.random() < 0.5 and len(w) > 2 * k + 2:
                w = w[:k] + 'n' + w[k + 1:]
        if rng.random() < 0.2:
            w = w.lower()
        recs.append(w)
    return recs


def run_case(desc, ctx):
    res = Result()
    k, rcmode, kind = desc['k'], desc['rc'], desc['kind']
    rng = random.Random(desc['seed'])
    ns = rng.randint(2, 6)
    if desc.get('large'):
        ns = rng.randint(2, 3)
        shared = G.rseq(rng, desc['large'] // 3)
        samples = [[G.rseq(rng, rng.randint(desc['large'] // 3, desc['large'])), shared] for _ in range(ns)]
    else:
        samples = c07.gen_samples(rng, k, ns)
    if any(not M.build(r, k, rcmode) for r in samples):
        res.count('degenerate_sample_skipped')
        return res
    wrecs = gen_weed(rng, samples, k, kind, rcmode)
    if desc.get('large'):
        for _ in range(rng.randint(3, 12)):
            src = rng.choice(rng.choice(samples))
            a = rng.randrange(len(src))
            wrecs.append(src[a:a + rng.randint(k, desc['large'] // 4)])
    wk = set(M.build(wrecs, k, rcmode))
    files = [G.write_fa(ctx.path('s%d.fa' % i), recs) for i, recs in enumerate(samples)]
    gz = rng.random() < 0.2
    # record headers: r<i>, or (a third) headers that share their first word, or are all the same
    hstyle = rng.choice(['plain', 'plain', 'shared-first-word', 'identical'])
    wnames = None if hstyle == 'plain' else [('mge part %d' % i if hstyle == 'shared-first-word' else 'contig') for i in range(len(wrecs))]
    if wnames:
        res.count('weed_headers_sharing_their_first_word')
    weedfile = G.write_fa(ctx.path('weed.fa.gz' if gz else 'weed.fa'), wrecs, wrap=rng.choice([0, 0, 60]), gz=gz, names=wnames)
    if gz:
        res.count('weed_file_gzipped')
    res.see('k_rc', '%d/%s' % (k, 'rc' if rcmode else 'ss'))
    res.count('width64' if k <= 31 else 'width128')
    for variant in (['rel', 'chk'] if desc.get('chk') else ['rel']):
        b = ctx.bins[variant]
        p = G.ska_build(ctx, ctx.path('all'), files, k, rcmode, binary=b)
        if p.returncode != 0:
            res.count('setup_build_failed')
            return res
        hdr, T = G.nk(ctx, ctx.path('all.skf'), binary=b)
        original = open(ctx.path('all.skf'), 'rb').read()
        results = {}
        for rev in (False, True):
            # weed takes and writes literal file names (no suffix is added): a quarter of the files are not called *.skf
            wname, oname = ('w.skf', 'wo.skf') if rng.random() < 0.75 else rng.choice([('panel.v1', 'weeded.v2'), ('w.skf.bak', 'out'), ('data', 'res.2024-06')])
            if wname != 'w.skf' and variant == 'rel':
                res.count('files_not_named_skf')
            ctx.write(wname, original)
            inplace = rng.random() < 0.5
            samefile = (not inplace) and rng.random() < 0.25          # -o naming the input file itself
            outargs = [] if inplace else ['-o', ctx.path(wname if samefile else oname)]
            result_file = ctx.path(wname) if inplace or samefile else ctx.path(oname)
            if not inplace and not samefile:
                ctx.write(oname, os.urandom(len(original) + 5000))            # an older, larger file of that name exists
            p = ctx.sh(b, 'weed', ctx.path(wname), weedfile, '--min-freq', '0', *outargs, *(['--reverse'] if rev else []))
            if variant == 'rel':
                res.count('out:' + ('inplace' if inplace else 'same-file' if samefile else 'other-existing-file'))
                if len(T) >= 4096:
                    res.count('files_of_4096+_rows')
            if variant == 'chk':
                res.count('chk_runs')
                if p.returncode != 0 and 'overflow' in p.stderr:
                    res.count('chk_overflow_panics')
                    res.see('chk_overflow_site', p.stderr.split('panicked at ')[-1].split('\n')[0][:80])
                    continue
            else:
                res.evals += 1
                res.count('weed:reverse' if rev else 'weed:forward')
            sig = 'C13:%s:%s' % (kind, 'reverse' if rev else 'forward')
            if p.returncode != 0:
                if not wk:
                    res.count('weed_file_without_kmers_refused')      # nothing the property speaks about
                    continue
                res.violate(sig + ':failed', 'k=%d rc=%s weed failed: %s' % (k, rcmode, p.stderr.strip()[-200:]),
                            {'samples': samples, 'weed': wrecs})
                continue
            try:
                hw, Tw = G.nk(ctx, result_file, binary=b)
            except (G.NkFailed, ValueError) as e:
                res.violate(sig + ':nk-failed', 'nk failed after weed: %s' % e, {'samples': samples, 'weed': wrecs})
                continue
            exp = M.t_weed(T, wk, rev)
            bad = []
            if Tw != exp:
                d = [(x, Tw.get(x), exp.get(x)) for x in set(Tw) | set(exp) if Tw.get(x) != exp.get(x)]
                bad.append('%d rows, expected %d of %d; e.g. %s' % (len(Tw), len(exp), len(T), d[:3]))
            if hw.get('names') != hdr.get('names'):
                bad.append('names changed to %s' % hw.get('names'))
            exp_counts = [sum(1 for r in exp.values() if r[i] != '-') for i in range(ns)]
            if hw.get('kmers_per_sample') != exp_counts or hw.get('k-mers') != str(len(exp)):
                bad.append('header counts %s / %s' % (hw.get('k-mers'), hw.get('kmers_per_sample')))
            for f in ('k', 'rc', 'samples'):
                if hw.get(f) != hdr.get(f):
                    bad.append('header %s changed' % f)
            if not inplace and not samefile and open(ctx.path(wname), 'rb').read() != original:
                bad.append('input file modified although -o names another file')
            if variant == 'rel' and not bad and exp:
                # the stored object itself: decoded k-mer integers, rows, per-row counts, lengths of the parallel containers
                bad += G.stored_problems(ctx, result_file, exp, hdr.get('names'), k, rcmode)
                if not bad:
                    res.count('stored_objects_checked')
            if bad:
                res.violate(sig + ':table', 'k=%d rc=%s kind=%s reverse=%s (%s): %s' % (k, rcmode, kind, rev, variant, '; '.join(bad[:3])),
                            {'samples': samples, 'weed': wrecs})
                continue
            results[rev] = Tw
            if variant != 'rel':
                continue
            # idempotence
            p2 = ctx.sh(b, 'weed', result_file, weedfile, '--min-freq', '0', *(['--reverse'] if rev else []))
            res.evals += 1
            if p2.returncode == 0:
                h2, T2 = G.nk(ctx, result_file, binary=b)
                if T2 != Tw or h2.get('names') != hw.get('names'):
                    res.violate(sig + ':idempotence', 'k=%d: weeding a second time changed the file' % k, {'samples': samples, 'weed': wrecs})
                else:
                    res.count('idempotence_checked')
            elif Tw:
                res.violate(sig + ':idempotence', 'second weed failed: %s' % p2.stderr[-150:], {'samples': samples, 'weed': wrecs})
        if variant == 'rel':
            # error paths: a weed file that yields no split k-mer (records shorter than k, N-riddled, missing path) is refused or
            # removes nothing - in both cases the stored file still holds the original content afterwards, in place and with -o
            # over an existing file; a result that cannot be written must not end in exit 0
            badweed = rng.choice(['short', 'nriddled', 'missing'])
            if badweed == 'short':
                bw = G.write_fa(ctx.path('bad.fa'), [G.rseq(rng, rng.randint(1, k - 1)) for _ in range(3)])
            elif badweed == 'nriddled':
                bw = G.write_fa(ctx.path('bad.fa'), [''.join('N' if i % (k - 1) == 0 else c for i, c in enumerate(G.rseq(rng, 5 * k)))])
            else:
                bw = ctx.path('no_such_file.fa')
            for inplace in (True, False):
                ctx.write('w.skf', original)
                ctx.write('keep.skf', original)
                outargs = [] if inplace else ['-o', ctx.path('keep.skf')]
                pe = ctx.sh(b, 'weed', ctx.path('w.skf'), bw, '--min-freq', '0', *outargs)
                res.evals += 1
                problems = []
                for f in ('w.skf', 'keep.skf'):
                    try:
                        hh, TT = G.nk(ctx, ctx.path(f), binary=b)
                    except (G.NkFailed, ValueError, OSError) as e:
                        problems.append('%s unreadable afterwards (%s)' % (f, str(e)[:80]))
                        continue
                    if TT != T or hh.get('names') != hdr.get('names'):
                        problems.append('%s changed: %d rows, %d before' % (f, len(TT), len(T)))
                if problems:
                    res.violate('C13:refused-weed:' + badweed, 'k=%d weed with a %s weed file (exit %d, %s): %s'
                                % (k, badweed, pe.returncode, 'in place' if inplace else '-o existing file', '; '.join(problems)), {'samples': samples})
                else:
                    res.count('weed_without_kmers_leaves_file_intact')
            ctx.write('w.skf', original)
            pu = ctx.sh(b, 'weed', ctx.path('w.skf'), weedfile, '--min-freq', '0', '-o', ctx.path('no_such_dir/out.skf'))
            res.evals += 1
            if pu.returncode == 0 or open(ctx.path('w.skf'), 'rb').read() != original:
                res.violate('C13:unwritable', 'weed -o into a missing directory: exit=%d, input changed=%s'
                            % (pu.returncode, open(ctx.path('w.skf'), 'rb').read() != original), {'samples': samples})
            else:
                res.count('unwritable_output_refused')
        if variant == 'rel' and len(results) == 2:
            fw, rv = results[False], results[True]
            if set(fw) & set(rv) or set(fw) | set(rv) != set(T) or any(T[x] != (fw.get(x) or rv.get(x)) for x in T):
                res.violate('C13:partition', 'forward and reverse weed do not partition the original file', {'samples': samples, 'weed': wrecs})
            else:
                res.count('partition_checked')
            res.count('rows_removed', len(rv))
            res.count('rows_kept', len(fw))
            if not fw and T:
                res.count('weed_all')
            if not rv:
                res.count('weed_nothing')
            if kind == 'ssrc' and not rcmode:
                fwd_keys = set(M.build([M.rc_n(wrecs[0])], k, False))
                if fwd_keys and not (fwd_keys & set(rv)) == (fwd_keys & wk & set(T)):
                    pass
                res.count('single_strand_rc_not_matched', len([x for x in fwd_keys if x in fw]))
            if 0 < len(rv) < len(T):
                res.nontrivial.append(fingerprint([k, rcmode, samples, wrecs]))
    if res.sample is None and kind == 'pieces':
        res.sample = {'k': k, 'rc': rcmode, 'samples': samples, 'weed_records': wrecs, 'weed_kmers_in_model': len(wk)}
    return res
