"""C07 - Merging .skf files equals building all their samples together."""
import os
import random

from .. import gen as G
from .. import model as M
from ..run import Result, fingerprint
from . import c01

ID = 'C07'
LEVEL = 'exploration'
BUDGET = {'quick': 150, 'thorough': 1800}
CHUNK = 2
RULE = ('Cases: 2..8 samples (related sequences with substitutions, N, private extra records; disjoint and identical '
        'samples, samples whose k-mers are a strict subset of another sample\'s; a third of the cases with samples realising tables of all 15 ambiguity codes; output prefixes with and without dots) partitioned into 2..4 files in every order (a dozen cases per run with 9..40 single-sample files in one call, one with 80 files under an open-file limit of 48, two with an input of exactly 2^12 / 2^14 rows), merged flat or nested (merging merged files), a share with the first file given once more as last argument, or with the output overwriting the first / last input; the result of '
        '`ska merge` is compared with one joint `ska build` of the same samples in the merged order (differential) and with '
        'the reference model; the stored merged object is also decoded through the harness (k-mer integers, rows, per-row counts, lengths of the parallel containers) and compared with the model.  k forced at 29/31/33/35 (width boundary) plus random odd k, both strand modes.  Refusal cases: '
        'a file with k+-2 or the opposite strand mode as first and as later argument must give a non-zero exit and leave no '
        'output file.  Non-trivial: at least one k-mer is missing from at least one sample (padding is exercised); distinct = '
        'distinct (k, mode, samples, partition, nesting).')
ASSUMPTIONS = ['the joint build is a run of the same binary (differential oracle); the model is the independent one',
               'sample names are s<i> (from file names) or, in a third of the cases, unusual legal names (punctuation, dots, a leading dash, non-ASCII; no white space, which separates the columns of a file list) given through file lists']
REQUIRED = {t: ['merge:flat', 'merge:nested', 'refuse:k:first', 'refuse:k:later', 'refuse:rc:first', 'refuse:rc:later',
                'width64', 'width128', 'padded_cells', 'samples_with_all_codes', 'dotted_output_prefix', 'stored_objects_checked', 'unusual_sample_names', 'subset_samples', 'merge:dup-arg', 'merge:out-is-first-input', 'merge:out-is-last-input',
                'merges_of_9+_files', 'inputs_with_exactly_2^n_rows', 'merges_under_a_low_open_file_limit'] for t in ('quick', 'thorough')}


def builds(tier):
    return ['rel', 'chk', 'harness']


def plan(tier, seed, rng, scale):
    descs = []
    for k in (29, 31, 33, 35):
        for rcmode in (True, False):
            for nested in (False, True):
                descs.append({'k': k, 'rc': rcmode, 'nested': nested, 'seed': rng.getrandbits(32)})
    n = int((3000 if tier == 'quick' else 30000) * scale)
    for i in range(n):
        descs.append({'k': rng.choice(G.ALL_K), 'rc': rng.random() < 0.7, 'nested': rng.random() < 0.4,
                      'seed': rng.getrandbits(32)})
    for i, d in enumerate(descs):
        d['chk'] = (i % 7 == 0)
        d['refuse'] = (i % 4 == 0)
        d['codes'] = (i % 3 == 1)
    extra = []
    for i in range(int((12 if tier == 'quick' else 80) * max(scale, 0.25))):
        # many files in one merge call (9..40, not only powers of two)
        extra.append({'k': rng.choice([15, 31, 33]), 'rc': rng.random() < 0.7, 'nested': False, 'seed': rng.getrandbits(32) // 16 * 16 + 5,
                      'manyfiles': [9, 10, 11, 12, 13, 17, 24, 33, 40][i % 9], 'chk': False, 'refuse': False, 'codes': False})
    for i, p2 in enumerate([4096, 16384] if tier == 'quick' else [4096, 8192, 16384, 32768, 65536, 16384]):
        # an input whose table has exactly 2^n rows
        extra.append({'k': rng.choice([21, 31, 33]), 'rc': rng.random() < 0.7, 'nested': False, 'seed': rng.getrandbits(32) // 16 * 16 + 5,
                      'pow2': p2, 'chk': False, 'refuse': False, 'codes': False})
    extra.append({'k': 31, 'rc': True, 'nested': False, 'seed': rng.getrandbits(32) // 16 * 16 + 5, 'manyfiles': 80, 'nofile': 48,
                  'chk': False, 'refuse': False, 'codes': False})
    for j, d in enumerate(extra):
        descs.insert(20 + 3 * j, d)
    return descs


def gen_samples(rng, k, ns, codes=False):
    if codes:
        # samples realising a table with all 15 codes and gaps (one record per row, sample and base of the code's set)
        rows = G.make_table(rng, k, ns, rng.randint(4, 30), styles=('allcodes', 'allcodes', 'oneambig', 'bases'))
        for s_ in range(ns):
            if all(r[s_] == '-' for r in rows.values()):
                rows[next(iter(rows))][s_] = rng.choice('ACGTMRN')
        return [G.table_records(rows, k, s_) for s_ in range(ns)]
    style = rng.choice(['related', 'related', 'disjoint', 'identical', 'mixed'])
    base = [G.rseq(rng, rng.randint(k, 5 * k)) for _ in range(rng.randint(1, 3))]
    out = []
    for i in range(ns):
        if style == 'disjoint' or (style == 'mixed' and rng.random() < 0.3):
            out.append([G.rseq(rng, rng.randint(k, 4 * k))])
            continue
        recs = []
        for b in base:
            s = list(b)
            if style != 'identical':
                for _ in range(rng.choice([0, 1, 2])):
                    s[rng.randrange(len(s))] = rng.choice('ACGTN')
            recs.append(''.join(s))
        if style != 'identical' and rng.random() < 0.4:
            recs.append(G.rseq(rng, rng.randint(k, 3 * k)))
        out.append(recs)
    return out


def run_case(desc, ctx):
    res = Result()
    k, rcmode = desc['k'], desc['rc']
    rng = random.Random(desc['seed'])
    ns = rng.randint(2, 8)
    if desc.get('manyfiles'):
        ns = desc['manyfiles']              # one sample per file, 9..40 files in one merge (or 80 under a low open-file limit)
    samples = gen_samples(rng, k, ns, codes=desc.get('codes', False) and rcmode)
    if desc.get('pow2'):
        # one input whose table has exactly 2^n rows (block sizes of conversions and writers): sample 0 gets random extra records
        # until the model counts exactly that many
        want = desc['pow2']
        base0 = [G.rseq(rng, want + k - 1 - 200)]
        while True:
            n0 = len(M.build(base0, k, rcmode))
            if n0 >= want:
                break
            base0.append(G.rseq(rng, min(want - n0, 200) + k - 1))
        samples[0] = base0
    if ns >= 2 and rng.random() < 0.2 and not desc.get('codes'):
        # a sample whose k-mers are a strict subset of another's (a truncated assembly), sometimes placed in the file merged first
        i_, j_ = rng.sample(range(ns), 2)
        big = [r for r in samples[i_] if len(r) >= k]
        if big:
            r0 = big[0]
            samples[j_] = [r0[:rng.randint(k, len(r0))]]
            subset_pair = (j_, i_)
            res.count('subset_samples')
    if any(not M.build(r, k, rcmode) for r in samples):
        res.count('degenerate_sample_skipped')
        return res
    if desc.get('codes') and rcmode:
        res.count('samples_with_all_codes')
    files = [G.write_fa(ctx.path('s%d.fa' % i), recs) for i, recs in enumerate(samples)]
    # sample names: s<i> from the file names, or (a third of the cases) unusual but legal names given in file lists
    POOL = ['iso-1', 'A|b', 'x=y', 'n.1', 'E.coli.K12', 'a+b', 'S#3', 'p:q', "o'k", 'q~r', '7', 'Zz_', 'run.fastq', 'm.fa', '-dash', 'UPPER', 'é_coli']
    odd = desc['seed'] % 3 == 0 and ns <= len(POOL)
    snames = rng.sample(POOL, ns) if odd else ['s%d' % i for i in range(ns)]
    if odd:
        res.count('unusual_sample_names')

    def build_of(out, idxs, binary):
        if not odd:
            return G.ska_build(ctx, out, [files[i] for i in idxs], k, rcmode, binary=binary)
        lst = ctx.write(os.path.basename(out) + '.list', ''.join('%s\t%s\n' % (snames[i], files[i]) for i in idxs))
        return G.ska_build(ctx, out, ['-f', lst], k, rcmode, binary=binary)
    # output prefixes: plain, or with dots in the file name (E.coli -> E.coli.skf)
    outname = rng.choice(['m', 'm', 'merged.v1', 'E.coli.run2'])
    if '.' in outname:
        res.count('dotted_output_prefix')
    # partition into 2..4 files, file order = a random permutation of the parts
    nparts = rng.randint(2, min(4, ns)) if not (desc.get('manyfiles') or desc.get('pow2')) else ns
    idx = list(range(ns))
    rng.shuffle(idx)
    cuts = sorted(rng.sample(range(1, ns), nparts - 1))
    parts = [idx[a:b] for a, b in zip([0] + cuts, cuts + [ns])]
    order = [i for p in parts for i in p]
    res.see('k_rc', '%d/%s' % (k, 'rc' if rcmode else 'ss'))
    res.count('width64' if k <= 31 else 'width128')
    order0, outname0 = list(order), outname
    for variant in (['rel', 'chk'] if desc.get('chk') else ['rel']):
        b = ctx.bins[variant]
        order, outname = list(order0), outname0
        pf = []
        ok = True
        for j, pt in enumerate(parts):
            p = build_of(ctx.path('p%d' % j), pt, b)
            ok = ok and p.returncode == 0
            pf.append(ctx.path('p%d.skf' % j))
        pj = build_of(ctx.path('joint'), order, b)
        if not ok or pj.returncode != 0:
            res.count('setup_build_failed')
            return res
        if desc['seed'] % 4 == 1:
            ctx.write(outname + '.skf', os.urandom(60000))                    # an older, larger file of that name exists
            if variant == 'rel':
                res.count('output_file_existed')
        nested = desc['nested'] and len(pf) > 2
        special = None if nested or desc['seed'] % 4 == 1 else {0: 'dup-arg', 2: 'out-is-first-input', 3: 'out-is-last-input'}.get(desc['seed'] % 16)
        margs = list(pf)
        if special == 'dup-arg':
            # the first file once more as last argument: its samples appear again, as in a build given those sequence files twice
            margs = pf + [pf[0]]
            order = order0 + list(parts[0])
            pj = build_of(ctx.path('joint'), order, b)
        elif special:
            # the output overwrites one of the inputs (a collection file that grows)
            src_ = pf[0] if special == 'out-is-first-input' else pf[-1]
            outname = os.path.basename(src_)[:-4]
            if '.' in outname0 and variant == 'rel':
                res.counters['dotted_output_prefix'] = res.counters.get('dotted_output_prefix', 0)
        if special and variant == 'rel':
            res.count('merge:' + special)
        if nested:
            cut = rng.randint(2, len(pf) - 1) if len(pf) > 2 else 2
            p0 = ctx.sh(b, 'merge', *pf[:cut], '-o', ctx.path('m0'))
            p = ctx.sh(b, 'merge', ctx.path('m0.skf'), *pf[cut:], '-o', ctx.path(outname))
            if p0.returncode != 0:
                p = p0
        else:
            if desc.get('nofile'):
                # a low limit on open files (batch systems, macOS default 256): inputs are read one after the other, so their
                # number is not bounded by it
                p = ctx.sh('bash', '-c', 'ulimit -n %d; exec "$@"' % desc['nofile'], 'bash', b, 'merge', *margs, '-o', ctx.path(outname))
                res.count('merges_under_a_low_open_file_limit')
            else:
                p = ctx.sh(b, 'merge', *margs, '-o', ctx.path(outname))
            if desc.get('manyfiles') and variant == 'rel':
                res.count('merges_of_9+_files')
            if desc.get('pow2') and variant == 'rel' and len(M.build(samples[0], k, rcmode)) == desc['pow2']:
                res.count('inputs_with_exactly_2^n_rows')
        if variant == 'chk':
            res.count('chk_runs')
            if p.returncode != 0 and 'overflow' in p.stderr:
                res.count('chk_overflow_panics')
                continue
        else:
            res.evals += 1
            res.count('merge:nested' if nested else 'merge:flat')
        if p.returncode != 0:
            res.violate('C07:merge-failed', 'k=%d rc=%s: merge of compatible files failed: %s' % (k, rcmode, p.stderr.strip()[-200:]),
                        {'samples': samples, 'parts': parts})
            continue
        try:
            hm, Tm = G.nk(ctx, ctx.path(outname + '.skf'), binary=b)
            hj, Tj = G.nk(ctx, ctx.path('joint.skf'), binary=b)
        except (G.NkFailed, ValueError) as e:
            res.violate('C07:nk-failed', 'nk failed after merge: %s' % e, {'samples': samples, 'parts': parts})
            continue
        model = M.table_of([samples[i] for i in order], k, rcmode)
        names = [snames[i] for i in order]
        bad = []
        if hm.get('names') != names:
            bad.append('names %s expected %s' % (hm.get('names'), names))
        if Tm != Tj:
            d = [(x, Tm.get(x), Tj.get(x)) for x in set(Tm) | set(Tj) if Tm.get(x) != Tj.get(x)]
            bad.append('merged table differs from the joint build: %s' % d[:3])
        if Tm != model:
            d = [(x, Tm.get(x), model.get(x)) for x in set(Tm) | set(model) if Tm.get(x) != model.get(x)]
            bad.append('merged table differs from the model: %s' % d[:3])
        if hm.get('k_bits') != hj.get('k_bits'):
            res.count('k_bits_differs_from_joint_build(subject of C09)')     # not part of the table C07 speaks about
        for f in ('k', 'rc', 'k-mers', 'samples', 'sample_kmers'):
            if hm.get(f) != hj.get(f):
                bad.append('header %s: merged %s, joint %s' % (f, hm.get(f), hj.get(f)))
        if variant == 'rel' and not bad:
            # the stored object itself (decoded k-mer integers, per-row counts, container lengths), not only what nk prints
            bad += G.stored_problems(ctx, ctx.path(outname + '.skf'), model, names, k, rcmode, kbits=False)
            if not bad:
                res.count('stored_objects_checked')
        if bad:
            res.violate('C07:%s:table' % ('nested' if nested else 'flat'),
                        'k=%d rc=%s parts=%s nested=%s (%s): %s' % (k, rcmode, parts, nested, variant, '; '.join(bad[:3])),
                        {'samples': samples, 'parts': parts, 'nested': nested})
            continue
        if variant == 'rel':
            res.count('rows_compared', len(model))
            pad = sum(1 for r in model.values() for x in r if x == '-')
            res.count('padded_cells', pad)
            if pad:
                res.nontrivial.append(fingerprint([k, rcmode, samples, parts, nested]))
        # ---- refusal cases
        if desc.get('refuse') and variant == 'rel':
            k2 = k + 2 if k < 63 else k - 2
            G.ska_build(ctx, ctx.path('badk'), [files[0]], k2, rcmode, binary=b)
            G.ska_build(ctx, ctx.path('badrc'), [files[0]], k, not rcmode, binary=b)
            for what, badfile in (('k', ctx.path('badk.skf')), ('rc', ctx.path('badrc.skf'))):
                for pos in ('first', 'later'):
                    out = ctx.path('bm.skf')
                    if os.path.exists(out):
                        os.remove(out)
                    args = [badfile, pf[0]] if pos == 'first' else [pf[0], badfile]
                    if pos == 'later' and len(pf) > 1 and rng.random() < 0.5:
                        args = [pf[0], pf[1], badfile]
                    pr = ctx.sh(b, 'merge', *args, '-o', ctx.path('bm'))
                    res.evals += 1
                    if pr.returncode == 0 or os.path.exists(out):
                        res.violate('C07:refuse:%s:%s' % (what, pos),
                                    'merge of files with different %s (%s argument) exit=%d output written=%s'
                                    % (what, pos, pr.returncode, os.path.exists(out)), {'k': k, 'k2': k2, 'rc': rcmode})
                    else:
                        res.count('refuse:%s:%s' % (what, pos))
    if res.sample is None:
        res.sample = {'k': k, 'rc': rcmode, 'samples': samples, 'files': [['s%d' % i for i in p] for p in parts],
                      'nested': desc['nested']}
    return res
