"""Reference model of split k-mer analysis, written from the specification over strings and sets.

Nothing in this file calls ska or shares code with it.  DESIGN.md section 4.
"""
import ast
from fractions import Fraction

ORD = {'A': 0, 'C': 1, 'T': 2, 'G': 3}      # documented encoding order A < C < T < G
COMP = {'A': 'T', 'C': 'G', 'G': 'C', 'T': 'A'}
SETS = {
    'A': 'A', 'C': 'C', 'G': 'G', 'T': 'T',
    'R': 'AG', 'Y': 'CT', 'S': 'CG', 'W': 'AT', 'K': 'GT', 'M': 'AC',
    'B': 'CGT', 'D': 'AGT', 'H': 'ACT', 'V': 'ACG', 'N': 'ACGT',
}
CODE_SET = {c: frozenset(s) for c, s in SETS.items()}
SET_CODE = {v: k for k, v in CODE_SET.items()}
CODES = sorted(SETS)
AMBIG = set(CODES) - set('ACGT')


def code_of(bases):
    return SET_CODE[frozenset(bases)]


def comp_code(c):
    """Complement of an IUPAC code or gap, by complementing its set."""
    if c == '-':
        return '-'
    return SET_CODE[frozenset(COMP[b] for b in CODE_SET[c])]


def rc(s):
    return ''.join(COMP[c] for c in reversed(s))


def rc_n(s):
    t = dict(COMP)
    t['N'] = 'N'
    return ''.join(t[c] for c in reversed(s.upper()))


def key(s):
    return [ORD[c] for c in s]


def is_ambig(b):
    return b not in 'ACGTU-'


def windows(seq, k):
    """(start, window) for every window of k consecutive non-N characters."""
    seq = seq.upper()
    for i in range(len(seq) - k + 1):
        w = seq[i:i + k]
        if 'N' in w:
            continue
        yield i, w


def canon_split(w, rcmode):
    """(arms, middle, flipped, palindrome) of a window in its stored orientation."""
    k = len(w)
    h = (k - 1) // 2
    sk = w[:h] + w[h + 1:]
    m = w[h]
    if rcmode:
        r = rc(w)
        rsk = r[:h] + r[h + 1:]
        if key(sk) > key(rsk):
            return rsk, r[h], True, False
        if sk == rsk:
            return sk, m, False, True
    return sk, m, False, False


def build(records, k, rcmode):
    """Sample dictionary arms -> IUPAC code of the set of middles."""
    d = {}
    for seq in records:
        for _i, w in windows(seq, k):
            sk, m, _f, pal = canon_split(w, rcmode)
            s = d.setdefault(sk, set())
            s.add(m)
            if pal:
                s.add(COMP[m])
    return {sk: code_of(v) for sk, v in d.items()}


def table_of(samples, k, rcmode):
    """Table arms -> list of codes ('-' where absent), samples = list of record lists."""
    ds = [build(recs, k, rcmode) for recs in samples]
    keys = set()
    for d in ds:
        keys.update(d)
    return {kk: [d.get(kk, '-') for d in ds] for kk in keys}


# ----------------------------------------------------------------------------- table operations

def t_merge(T1, n1, T2, n2):
    keys = set(T1) | set(T2)
    return {kk: T1.get(kk, ['-'] * n1) + T2.get(kk, ['-'] * n2) for kk in keys}


def t_delete(T, idx):
    keep = [i for i in range(len(next(iter(T.values())))) if i not in idx] if T else []
    out = {}
    for kk, v in T.items():
        row = [v[i] for i in keep]
        if any(b != '-' for b in row):
            out[kk] = row
    return out


def t_weed(T, arms_set, reverse):
    return {kk: v for kk, v in T.items() if (kk in arms_set) == reverse}


def row_passes(bases, filt, thr, fam, nogap):
    cnt = sum(1 for b in bases if b != '-' and (not fam or not is_ambig(b)))
    if cnt < max(1, thr):
        return False
    if filt == 'no-filter':
        return True
    if filt == 'no-const':
        return len(set(b for b in bases if not (nogap and b == '-'))) > 1
    if filt == 'no-ambig':
        return not any(is_ambig(b) for b in bases)
    if filt == 'no-ambig-or-const':
        return len(set(b for b in bases if (b in 'ACGT') or (b == '-' and not nogap))) > 1
    raise ValueError(filt)


def t_filter(T, filt, thr, fam, mask, nogap):
    out = {}
    for kk, bases in T.items():
        if row_passes(bases, filt, thr, fam, nogap):
            out[kk] = ['N' if (mask and is_ambig(b)) else b for b in bases]
    return out


def ceil_thr(f_str, n):
    """ceil(f*n) with f the exact rational of its decimal string."""
    x = Fraction(f_str) * n
    return -((-x.numerator) // x.denominator)


def floor_thr(f_str, n):
    x = Fraction(f_str) * n
    return x.numerator // x.denominator


# ----------------------------------------------------------------------------- parsers of ska output

def parse_nk(txt):
    """`ska nk --full-info` -> (header dict, table arms -> list of bases)."""
    hdr = {}
    table = {}
    lines = txt.split('\n')
    i = 0
    while i < len(lines) and lines[i].strip() != '':
        if '=' in lines[i]:
            a, b = lines[i].split('=', 1)
            hdr[a] = b
        i += 1
    for l in lines[i:]:
        if not l.strip():
            continue
        u, lo, b = l.split('\t')
        if (u + lo) in table:
            raise ValueError('duplicate row ' + u + lo)
        table[u + lo] = b.split(',')
    if 'sample_names' in hdr:
        hdr['names'] = ast.literal_eval(hdr['sample_names'])
    if 'sample_kmers' in hdr:
        hdr['kmers_per_sample'] = ast.literal_eval(hdr['sample_kmers'])
    return hdr, table


def parse_fasta(txt):
    names, seqs = [], []
    for l in txt.split('\n'):
        if l.startswith('>'):
            names.append(l[1:])
            seqs.append('')
        elif l.strip():
            seqs[-1] += l.strip()
    return names, seqs


def fasta_format_problems(txt):
    """Problems in the layout of a FASTA alignment as ska writes it: header and sequence lines alternate, one line per
    sequence, no further blank lines (an empty alignment has empty sequence lines), a final newline, symbols from the IUPAC set plus '-'."""
    bad = []
    if txt == '':
        return bad
    if not txt.endswith('\n'):
        bad.append('does not end in a newline')
    lines = txt.split('\n')[:-1] if txt.endswith('\n') else txt.split('\n')
    if len(lines) % 2:
        bad.append('%d lines: header and sequence lines do not alternate' % len(lines))
    for i, l in enumerate(lines):
        if i % 2 == 0:
            if not l.startswith('>'):
                bad.append('line %d should be a header: %r' % (i + 1, l[:40]))
                break
        else:
            if l.startswith('>') or set(l) - set('ACGTUNRYSWKMBDHV-'):
                bad.append('line %d should be an upper-case sequence line: %r' % (i + 1, l[:40]))
                break
    return bad


def columns(seqs):
    if not seqs or not seqs[0]:
        return []
    return [''.join(s[i] for s in seqs) for i in range(len(seqs[0]))]


def comp_col(c):
    t = {'A': 'T', 'C': 'G', 'G': 'C', 'T': 'A', '-': '-', 'N': 'N'}
    return ''.join(t.get(x, comp_code(x) if x in SETS else x) for x in c)


def canon_col(c):
    return min(c, comp_col(c))


# ----------------------------------------------------------------------------- ntHash (written from the ntHash 1 paper)

NT_SEED = {'A': 0x3c8bfbb395c60474, 'C': 0x3193c18562a02b4c, 'G': 0x20323ed082572324, 'T': 0x295549f54be24456}
M64 = (1 << 64) - 1


def rol(x, r):
    r %= 64
    return ((x << r) | (x >> (64 - r))) & M64 if r else x


def nthash_fwd(w):
    k = len(w)
    h = 0
    for i, c in enumerate(w):
        h ^= rol(NT_SEED[c], k - 1 - i)
    return h


def nthash(w, rcmode):
    f = nthash_fwd(w)
    if rcmode:
        return min(f, nthash_fwd(rc(w)))
    return f
