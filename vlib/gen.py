"""Input generators and thin wrappers around the ska command line (the observation boundary)."""
import gzip
import os

from . import model as M
from .run import Inconclusive

ALL_K = list(range(5, 64, 2))


def rseq(rng, n, alphabet='ACGT'):
    return ''.join(rng.choice(alphabet) for _ in range(n))


def lowc_seq(rng, n, k):
    """Low-complexity sequence: homopolymer runs and short tandem repeats whose lengths sit around (k-1)/2, (k+1)/2, k and
    k+1, joined without spacers (junctions of two runs, runs long enough to fill both arms, runs of exactly one window)."""
    h = (k - 1) // 2
    out = ''
    while len(out) < n:
        unit = rng.choice(['A', 'C', 'G', 'T', 'A', 'C', 'AC', 'AT', 'GC', 'ACG', 'AAT'])
        L = rng.choice([h, h + 1, h + 1, h + 2, k - 1, k, k + 1, 2 * k, rng.randint(1, 2 * k)])
        out += (unit * (L // len(unit) + 1))[:L]
        if rng.random() < 0.2:
            out += rseq(rng, rng.randint(1, k))
    return out[:n] if n >= k else out


def noisy_seq(rng, n, pn=0.02, lc=0.2):
    s = []
    for _ in range(n):
        c = rng.choice('ACGT')
        if rng.random() < pn:
            c = 'N'
        if rng.random() < lc:
            c = c.lower()
        s.append(c)
    return ''.join(s)


def fasta_text(recs, wrap=0, names=None):
    out = []
    for j, r in enumerate(recs):
        out.append('>%s\n' % (names[j] if names else 'r%d' % j))
        if wrap and r:
            out.append('\n'.join(r[i:i + wrap] for i in range(0, len(r), wrap)) + '\n')
        else:
            out.append(r + '\n')
    return ''.join(out)


def write_fa(path, recs, wrap=0, gz=False, names=None):
    txt = fasta_text(recs, wrap, names)
    if gz:
        with gzip.open(path, 'wt') as f:
            f.write(txt)
    else:
        with open(path, 'w') as f:
            f.write(txt)
    return path


def strand_flag(rcmode):
    return [] if rcmode else ['--single-strand']


def ska_build(ctx, out_prefix, files, k, rcmode, extra=(), binary=None, env=None):
    return ctx.sh(binary or ctx.ska, 'build', '-k', k, '-o', out_prefix, *files, *strand_flag(rcmode), *extra, env=env)


def nk(ctx, skf, binary=None):
    """Read-out of an .skf through `ska nk --full-info`; returns (hdr, table) or raises."""
    p = ctx.sh(binary or ctx.ska, 'nk', '--full-info', skf)
    if p.returncode != 0:
        raise NkFailed(p.stderr[-400:])
    return M.parse_nk(p.stdout)


def stored_rows(ctx, skf):
    """Every stored field of an .skf through the harness (`rows`): (header dict, {kmer int: (bases, stored count)}).
    Returns None when the file is rejected or its three parallel containers disagree in length."""
    p = ctx.sh(ctx.bins['harness'], 'rows', skf)
    if p.returncode != 0 or 'INCONSISTENT' in p.stdout:
        return None
    hdr, rows = {}, {}
    for l in p.stdout.split('\n'):
        f = l.split('\t')
        if f[0] == 'ROW':
            rows[int(f[1])] = (f[2], int(f[3]))
        elif len(f) == 2:
            hdr[f[0]] = f[1]
    return hdr, rows


def stored_problems(ctx, skf, table, names, k, rcmode, counts='nongap', kbits=True):
    """The stored object against a table {arms: bases}: header fields, the three parallel containers of equal length,
    the rows themselves (decoded from the integers, not through nk) and the stored per-row counts (number of non-gap
    bases, or of unambiguous bases for counts='unamb'; counts=None leaves them unjudged).  Returns a list of problems."""
    st = stored_rows(ctx, skf)
    if st is None:
        return ['stored object rejected or its parallel containers disagree in length']
    hdr, rows = st
    bad = []
    if hdr.get('k') != str(k) or hdr.get('rc') != ('true' if rcmode else 'false') or hdr.get('names') != ','.join(names):
        bad.append('stored header %s' % hdr)
    if kbits and hdr.get('k_bits') != ('64' if k <= 31 else '128'):
        bad.append('stored k_bits %s for k=%d' % (hdr.get('k_bits'), k))
    want = {}
    for arms, bases in table.items():
        v = 0
        for c in arms:
            v = v * 4 + M.ORD[c]
        want[v] = ''.join(bases)
    got = {kk: b for kk, (b, _c) in rows.items()}
    if got != want:
        d = [(x, got.get(x), want.get(x)) for x in set(got) | set(want) if got.get(x) != want.get(x)]
        bad.append('stored rows differ from the table (k-mer integer, stored, expected): %s' % d[:3])
    elif counts:
        for kk, (b, c) in rows.items():
            exp = sum(1 for x in b if x != '-' and (counts == 'nongap' or not M.is_ambig(x)))
            if c != exp:
                bad.append('stored count %d for row %s (k-mer %d), %d expected' % (c, b, kk, exp))
                break
    return bad


class NkFailed(Exception):
    pass


def one_col(table):
    return {a: b[0] for a, b in table.items()}


# ------------------------------------------------------------------ arbitrary tables through `ska build`

def canonical_arms(rng, k, rcmode=True):
    """Random arms (k-1 bases) in their stored orientation, not self-complementary."""
    while True:
        arms = rseq(rng, k - 1)
        if not rcmode:
            return arms
        ra = M.rc(arms)
        if M.key(arms) < M.key(ra):
            return arms


def table_records(rows, k, s):
    """FASTA records that make sample s contribute exactly column s of `rows` (DESIGN 3.2)."""
    h = (k - 1) // 2
    recs = []
    for arms, bases in rows.items():
        b = bases[s]
        if b == '-':
            continue
        for m in sorted(M.CODE_SET[b]):
            recs.append(arms[:h] + m + arms[h:] + 'N')
    return recs


def write_table_samples(ctx, rows, k, ns, prefix='s', subdir=None):
    """Write one FASTA per sample realising `rows`; None if some sample would be empty."""
    d = ctx.dir if subdir is None else ctx.path(subdir)
    os.makedirs(d, exist_ok=True)
    fns = []
    for s in range(ns):
        recs = table_records(rows, k, s)
        if not recs:
            return None
        fns.append(write_fa(os.path.join(d, '%s%d.fa' % (prefix, s)), recs))
    return fns


ROW_STYLES = ('bases', 'nearconst', 'allcodes', 'oneambig', 'twoallele', 'const', 'constgap', 'onlyambig')


def random_row(rng, ns, style):
    while True:
        bases = []
        for _ in range(ns):
            r = rng.random()
            if style == 'bases':
                b = rng.choice('ACGT')
            elif style == 'nearconst':
                b = 'A' if r < 0.8 else '-'
            elif style == 'allcodes':
                b = rng.choice(M.CODES + ['-', '-'])
            elif style == 'oneambig':
                b = rng.choice(['A', 'A', 'R', '-'])
            elif style == 'twoallele':
                b = rng.choice('AC-')
            elif style == 'const':
                b = 'G'
            elif style == 'constgap':
                b = 'T'
            elif style == 'onlyambig':
                b = rng.choice(['R', 'Y', 'N', 'S', '-'])
            bases.append(b)
        if style == 'constgap' and ns > 1:
            bases[rng.randrange(ns)] = '-'
        if any(b != '-' for b in bases):
            return bases


def make_table(rng, k, ns, nrows, styles=ROW_STYLES[:5], rcmode=True):
    rows = {}
    while len(rows) < nrows:
        arms = canonical_arms(rng, k, rcmode)
        if arms in rows:
            continue
        rows[arms] = random_row(rng, ns, rng.choice(styles))
    return rows


def build_table(ctx, rows, k, ns, out, rcmode=True, prefix='s'):
    """Build an .skf holding exactly `rows`; verifies the read-out.  Returns file names or None."""
    fns = write_table_samples(ctx, rows, k, ns, prefix=prefix)
    if not fns:
        return None
    p = ska_build(ctx, out, fns, k, rcmode)
    if p.returncode != 0:
        raise Inconclusive('table construction build failed: ' + p.stderr[-300:])
    return fns


STALE = ''.join('>stale_sample_%d\n%s\n' % (i, 'ACGTN-' * 40) for i in range(40))


def stale_file(ctx, name):
    """An output path that already holds a longer, older result: the command has to replace it, not overwrite its head."""
    return ctx.write(name, STALE)


def align_output(ctx, args, binary=None, stale_out=False):
    if stale_out:
        out = stale_file(ctx, 'stale_align.out')
        p = ctx.sh(binary or ctx.ska, 'align', *args, '-o', out)
    else:
        p = ctx.sh(binary or ctx.ska, 'align', *args)
    if p.returncode != 0:
        return None, None, p
    txt = open(out).read() if stale_out else p.stdout
    fmt = M.fasta_format_problems(txt)
    if fmt:
        # a malformed alignment is reported as a failed run whose message says what is wrong with the layout
        p = type('R', (), {'returncode': 0, 'stdout': p.stdout, 'stderr': 'malformed alignment output: ' + '; '.join(fmt)})()
        return None, None, p
    names, seqs = M.parse_fasta(txt)
    return names, seqs, p
