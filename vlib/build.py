"""Builds of the repository under test (always from VERIF_REPO's current working tree, offline)."""
import fcntl
import hashlib
import os
import shutil
import subprocess
import sys
import time

ROOT = os.path.dirname(os.path.dirname(os.path.abspath(__file__)))
REPO = os.path.realpath(os.environ.get('VERIF_REPO', '/repo'))
KEY = hashlib.sha1(REPO.encode()).hexdigest()[:10]
BUILD = os.path.join(ROOT, '.build', KEY)
TARGET = 'x86_64-unknown-linux-gnu'

ENV = dict(os.environ)
ENV.update({'CARGO_NET_OFFLINE': 'true', 'CARGO_TERM_COLOR': 'never'})
# never let the caller's flags leak into the verdict builds
for v in ('RUSTFLAGS', 'MIRIFLAGS', 'CARGO_TARGET_DIR', 'CARGO_BUILD_TARGET'):
    ENV.pop(v, None)


class BuildError(Exception):
    pass


def _run(cmd, cwd, env, log):
    t0 = time.time()
    p = subprocess.run(cmd, cwd=cwd, env=env, stdout=subprocess.PIPE, stderr=subprocess.STDOUT, text=True)
    with open(log, 'w') as f:
        f.write('$ ' + ' '.join(cmd) + '\n' + p.stdout)
    if p.returncode != 0:
        sys.stderr.write(p.stdout[-4000:])
        raise BuildError('build failed: ' + ' '.join(cmd) + ' (log: ' + log + ')')
    return time.time() - t0


class _Lock:
    def __init__(self, name):
        os.makedirs(BUILD, exist_ok=True)
        self.path = os.path.join(BUILD, '.lock-' + name)

    def __enter__(self):
        self.f = open(self.path, 'w')
        fcntl.flock(self.f, fcntl.LOCK_EX)

    def __exit__(self, *a):
        fcntl.flock(self.f, fcntl.LOCK_UN)
        self.f.close()


def _harness_src():
    """Copy of /verif/harness with the path dependency pointed at REPO."""
    dst = os.path.join(BUILD, 'harness-src')
    src = os.path.join(ROOT, 'harness')
    os.makedirs(os.path.join(dst, 'src'), exist_ok=True)

    def put(path, data):
        old = None
        if os.path.exists(path):
            old = open(path).read()
        if old != data:
            with open(path, 'w') as f:
                f.write(data)

    toml = open(os.path.join(src, 'Cargo.toml.in')).read().replace('@REPO@', REPO)
    put(os.path.join(dst, 'Cargo.toml'), toml)
    for fn in os.listdir(os.path.join(src, 'src')):
        put(os.path.join(dst, 'src', fn), open(os.path.join(src, 'src', fn)).read())
    lock = os.path.join(dst, 'Cargo.lock')
    if not os.path.exists(lock):
        shutil.copy(os.path.join(REPO, 'Cargo.lock'), lock)
    return dst


SKA_FLAGS = ['--release', '--features', 'verif-hooks', '--offline']
CHK_CFG = ['--config', 'profile.release.overflow-checks=true', '--config', 'profile.release.debug-assertions=true']


def ska(variant='rel'):
    """Build (incrementally) and return the path of the ska binary of a variant."""
    tdir = os.path.join(BUILD, variant)
    log = os.path.join(BUILD, 'build-%s.log' % variant)
    manifest = os.path.join(REPO, 'Cargo.toml')
    env = dict(ENV)
    with _Lock(variant):
        if variant == 'rel':
            _run(['cargo', 'build'] + SKA_FLAGS + ['--manifest-path', manifest, '--target-dir', tdir], REPO, env, log)
            return os.path.join(tdir, 'release', 'ska')
        if variant == 'chk':
            _run(['cargo', 'build'] + SKA_FLAGS + CHK_CFG + ['--manifest-path', manifest, '--target-dir', tdir], REPO, env, log)
            return os.path.join(tdir, 'release', 'ska')
        if variant == 'asan':
            env['RUSTFLAGS'] = '-Zsanitizer=address -Cforce-frame-pointers=yes'
            _run(['cargo', '+nightly', 'build'] + SKA_FLAGS + ['--target', TARGET, '--manifest-path', manifest, '--target-dir', tdir], REPO, env, log)
            return os.path.join(tdir, TARGET, 'release', 'ska')
        if variant == 'tsan':
            env['RUSTFLAGS'] = '-Zsanitizer=thread'
            _run(['cargo', '+nightly', 'build'] + SKA_FLAGS + ['-Zbuild-std', '--target', TARGET, '--manifest-path', manifest, '--target-dir', tdir], REPO, env, log)
            return os.path.join(tdir, TARGET, 'release', 'ska')
    raise BuildError('unknown variant ' + variant)


def harness(variant='rel'):
    """Build and return the path of the harness binary (links REPO with hooks on)."""
    tdir = os.path.join(BUILD, 'harness-' + variant)
    log = os.path.join(BUILD, 'build-harness-%s.log' % variant)
    env = dict(ENV)
    with _Lock('harness-' + variant):
        src = _harness_src()
        manifest = os.path.join(src, 'Cargo.toml')
        if variant == 'rel':
            _run(['cargo', 'build', '--release', '--offline', '--manifest-path', manifest, '--target-dir', tdir], src, env, log)
            return os.path.join(tdir, 'release', 'skaharness')
        if variant == 'chk':
            _run(['cargo', 'build', '--release', '--offline'] + CHK_CFG + ['--manifest-path', manifest, '--target-dir', tdir], src, env, log)
            return os.path.join(tdir, 'release', 'skaharness')
        if variant == 'asan':
            env['RUSTFLAGS'] = '-Zsanitizer=address -Cforce-frame-pointers=yes'
            _run(['cargo', '+nightly', 'build', '--release', '--offline', '--target', TARGET, '--manifest-path', manifest, '--target-dir', tdir], src, env, log)
            return os.path.join(tdir, TARGET, 'release', 'skaharness')
    raise BuildError('unknown harness variant ' + variant)


def miri_cmd(args, seed=None, tree_borrows=False):
    """Command + env + cwd to run the harness under Miri with the given arguments."""
    src = _harness_src()
    env = dict(ENV)
    flags = '-Zmiri-disable-isolation'
    if seed is not None:
        flags += ' -Zmiri-seed=%d' % seed
    if tree_borrows:
        # rayon's crossbeam-epoch is rejected by the (experimental) Stacked Borrows model in its own intrusive list;
        # operations that start the rayon pool are interpreted under Tree Borrows instead
        flags += ' -Zmiri-tree-borrows -Zmiri-ignore-leaks'      # the global rayon pool is never joined
    env['MIRIFLAGS'] = flags
    tdir = os.path.join(BUILD, 'harness-miri')
    cmd = ['cargo', '+nightly', 'miri', 'run', '--offline', '--manifest-path', os.path.join(src, 'Cargo.toml'),
           '--target-dir', tdir, '--'] + list(args)
    return cmd, env, src


if __name__ == '__main__':
    for v in sys.argv[1:] or ['rel']:
        t0 = time.time()
        if v.startswith('harness'):
            p = harness(v.split('-', 1)[1] if '-' in v else 'rel')
        else:
            p = ska(v)
        print('%s -> %s (%.1fs)' % (v, p, time.time() - t0))
