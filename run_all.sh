#!/bin/sh
# Runs every registered check of a tier in sequence; prints one summary line per check.
tier=${1:-quick}
cd "$(dirname "$0")"
rc=0
for id in C01 C02 C03 C04 C05 C06 C07 C08 C09 C10 C11 C12 C13 C14 C15 C16 C17 C18 C19 C20; do
  start=$(date +%s)
  out=$(./check $id --tier $tier 2>&1); code=$?
  end=$(date +%s)
  echo "$out" | grep -E "^(C[0-9]+ tier|VIOLATION|INCONCLUSIVE|KNOWN-FINDING)" | head -5
  echo "  -> $id exit=$code $((end-start))s"
  [ $code -ne 0 ] && rc=1
done
exit $rc
